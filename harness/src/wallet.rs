//! Wallet-family driver (C21-C23): a mock node with its built-in wallet, the real explorer in-process,
//! and the real `ord wallet ...` commands spawned as subprocesses (like ord's integration tests).

use {
  anyhow::{Result, anyhow},
  clap::Parser,
  ord::{Index, options::Options, settings::Settings, subcommand::server::Server},
  serde_json::{Value, json},
  std::{collections::BTreeMap, net::SocketAddr, path::PathBuf, process::{Command, Stdio}, sync::Arc},
};

pub struct World {
  pub core: mockcore::Handle,
  pub index: Arc<Index>,
  pub port: u16,
  pub handle: axum_server::Handle<SocketAddr>,
  pub data: tempfile::TempDir,
  pub server_dir: tempfile::TempDir,
}

pub struct CliOut {
  pub ok: bool,
  pub stdout: String,
  pub stderr: String,
  pub json: Value,
}

impl World {
  pub fn new() -> Result<Self> {
    let core = mockcore::builder().network(bitcoin::Network::Regtest).build();
    let server_dir = tempfile::TempDir::new()?;
    let args: Vec<String> = vec!["ord".into(), "--regtest".into(), "--bitcoin-rpc-url".into(), core.url(), "--cookie-file".into(),
      core.cookie_file().display().to_string(), "--data-dir".into(), server_dir.path().display().to_string(),
      "--index-runes".into(), "--index-sats".into(), "--index-addresses".into(), "--index-cache-size".into(), "33554432".into()];
    let settings = Settings::merge(Options::try_parse_from(args)?, BTreeMap::new())?;
    let index = Arc::new(Index::open(&settings)?);
    let server = Server::try_parse_from(["server", "--http-port", "0", "--address", "127.0.0.1", "--no-sync"])?;
    let handle = axum_server::Handle::new();
    let (tx, rx) = std::sync::mpsc::channel();
    let (h2, i2) = (handle.clone(), index.clone());
    std::thread::spawn(move || {
      let _ = server.run(settings, i2, h2, Some(tx));
    });
    let port = rx.recv_timeout(std::time::Duration::from_secs(30)).map_err(|_| anyhow!("server did not start"))?;
    Ok(Self { core, index, port, handle, data: tempfile::TempDir::new()?, server_dir })
  }

  pub fn sync(&self) -> Result<()> {
    self.index.update()
  }

  pub fn mine(&self, n: u64) -> Result<()> {
    self.core.mine_blocks(n);
    self.sync()
  }

  fn exe() -> PathBuf {
    std::env::current_exe().unwrap().parent().unwrap().join("ordcli")
  }

  pub fn command(&self, args: &[&str]) -> Command {
    let mut c = Command::new(Self::exe());
    c.args(["--regtest", "--index-runes", "--bitcoin-rpc-url", &self.core.url(), "--cookie-file"])
      .arg(self.core.cookie_file())
      .arg("--datadir")
      .arg(self.data.path())
      .current_dir(self.data.path());
    for a in args {
      c.arg(a);
      if *a == "wallet" {
        c.arg("--server-url").arg(format!("http://127.0.0.1:{}", self.port));
      }
    }
    c.stdin(Stdio::null()).stdout(Stdio::piped()).stderr(Stdio::piped());
    c
  }

  pub fn cli(&self, args: &[&str]) -> Result<CliOut> {
    self.sync()?;
    let out = self.command(args).output()?;
    let stdout = String::from_utf8_lossy(&out.stdout).to_string();
    let json = serde_json::from_str(&stdout).unwrap_or(Value::Null);
    Ok(CliOut { ok: out.status.success(), stdout, stderr: String::from_utf8_lossy(&out.stderr).to_string(), json })
  }

  /// run a command that waits for confirmations (batch etching): mine a block whenever it is still running
  pub fn cli_mining(&self, args: &[&str], max_blocks: u64) -> Result<CliOut> {
    self.sync()?;
    let mut child = self.command(args).spawn()?;
    let t0 = std::time::Instant::now();
    let mut mined = 0;
    let mut started = false;
    let mut last_mine = std::time::Instant::now();
    loop {
      if child.try_wait()?.is_some() {
        let out = child.wait_with_output()?;
        let stdout = String::from_utf8_lossy(&out.stdout).to_string();
        let json = serde_json::from_str(&stdout).unwrap_or(Value::Null);
        return Ok(CliOut { ok: out.status.success(), stdout, stderr: String::from_utf8_lossy(&out.stderr).to_string(), json });
      }
      if t0.elapsed() > std::time::Duration::from_secs(180) {
        let _ = child.kill();
        let out = child.wait_with_output()?;
        return Ok(CliOut {
          ok: false,
          stdout: String::from_utf8_lossy(&out.stdout).to_string(),
          stderr: format!("driver: command did not finish within 180 s; stderr tail: {}", String::from_utf8_lossy(&out.stderr).chars().rev().take(300).collect::<String>().chars().rev().collect::<String>()),
          json: Value::Null,
        });
      }
      // blocks are mined only once the command has broadcast something (a slow start must not use them up)
      if !started && !self.core.state().mempool.is_empty() {
        started = true;
      }
      if started && mined < max_blocks && last_mine.elapsed() > std::time::Duration::from_millis(600) {
        self.mine(1)?;
        mined += 1;
        last_mine = std::time::Instant::now();
      }
      std::thread::sleep(std::time::Duration::from_millis(100));
    }
  }
}

pub fn smoke(out: &str) -> Result<()> {
  let w = World::new()?;
  let mut rows = Vec::new();
  let r = w.cli(&["wallet", "create"])?;
  rows.push(json!({"cmd": "create", "ok": r.ok, "stderr": r.stderr}));
  w.mine(3)?;
  let r = w.cli(&["wallet", "balance"])?;
  rows.push(json!({"cmd": "balance", "ok": r.ok, "json": r.json, "stderr": r.stderr}));
  std::fs::write(out, rows.iter().map(|r| r.to_string()).collect::<Vec<_>>().join("\n"))?;
  w.handle.shutdown();
  Ok(())
}

// ------------------------------------------------------------------------------------------------
// C22 / C23 driver: random wallet rune inventories, the real send / burn / split / mint / send-btc
// commands, the transaction each one broadcasts and what the real index says after it is mined.

use {
  bitcoin::{
    Address, Amount, OutPoint, ScriptBuf, Sequence, Transaction, TxIn, TxOut, Txid, Witness,
    absolute::LockTime, blockdata::script, transaction::Version,
  },
  ordinals::{Artifact, Edict, Etching, Rune, RuneId, Runestone, Terms},
  rand::{Rng, SeedableRng, rngs::StdRng},
};

const BTC: u64 = 100_000_000;

#[derive(Clone)]
struct RuneInfo {
  rune: Rune,
  name: String,
  id: RuneId,
  div: u8,
  terms: bool,
}

pub struct Ctx {
  pub w: World,
  rng: StdRng,
  labels: BTreeMap<OutPoint, String>,
  recv: Vec<Address>,
  foreign: Vec<Address>,
  runes: Vec<RuneInfo>,
  used: std::collections::BTreeSet<OutPoint>,
  pub rows: Vec<Value>,
  tag: String,
  theirs: Option<OutPoint>,
}

fn decimal(a: u128, div: u8) -> String {
  if div == 0 {
    return a.to_string();
  }
  let p = 10u128.pow(div as u32);
  let frac = format!("{:0width$}", a % p, width = div as usize);
  let frac = frac.trim_end_matches('0');
  if frac.is_empty() { (a / p).to_string() } else { format!("{}.{}", a / p, frac) }
}

impl Ctx {
  pub fn new(seed: u64, tag: &str) -> Result<Self> {
    let w = World::new()?;
    let r = w.cli(&["wallet", "create"])?;
    if !r.ok {
      return Err(anyhow!("wallet create failed: {}", r.stderr));
    }
    let r = w.cli(&["wallet", "receive", "--number", "24"])?;
    let recv = r.json["addresses"]
      .as_array()
      .ok_or_else(|| anyhow!("receive: {} {}", r.stdout, r.stderr))?
      .iter()
      .map(|a| a.as_str().unwrap().parse::<Address<bitcoin::address::NetworkUnchecked>>().unwrap().assume_checked())
      .collect();
    let foreign = (0..8u32)
      .map(|i| Address::from_script(&crate::node::script_for("tr", 9000 + i), bitcoin::Network::Regtest).unwrap())
      .collect();
    Ok(Self {
      w,
      rng: StdRng::seed_from_u64(seed),
      labels: BTreeMap::new(),
      recv,
      foreign,
      runes: Vec::new(),
      used: Default::default(),
      rows: Vec::new(),
      tag: tag.into(),
      theirs: None,
    })
  }

  fn label(&mut self, o: OutPoint) -> String {
    let n = self.labels.len();
    self.labels.entry(o).or_insert_with(|| format!("o{n}")).clone()
  }

  fn is_wallet_script(&self, s: &ScriptBuf) -> bool {
    let st = self.w.core.state();
    Address::from_script(s, st.network).map(|a| st.is_wallet_address(&a)).unwrap_or(false)
  }

  fn wallet_utxos(&self) -> BTreeMap<OutPoint, Amount> {
    let st = self.w.core.state();
    st.utxos
      .iter()
      .filter(|(o, _)| {
        st.transactions.get(&o.txid).is_some_and(|tx| {
          Address::from_script(&tx.output[o.vout as usize].script_pubkey, st.network)
            .map(|a| st.is_wallet_address(&a))
            .unwrap_or(false)
        })
      })
      .map(|(o, v)| (*o, *v))
      .collect()
  }

  fn rune_rank(&self, rune: Rune) -> usize {
    self.runes.iter().position(|r| r.rune == rune).map(|i| i + 1).unwrap_or(0)
  }

  fn balances(&self, o: OutPoint) -> Result<Vec<(usize, u128)>> {
    let mut v: Vec<(usize, u128)> = self
      .w
      .index
      .get_rune_balances_for_output(o)?
      .unwrap_or_default()
      .into_iter()
      .map(|(sr, pile)| (self.rune_rank(sr.rune), pile.amount))
      .collect();
    v.sort();
    Ok(v)
  }

  fn insc_count(&self, o: OutPoint) -> Result<usize> {
    Ok(self.w.index.get_inscriptions_for_output(o)?.map(|v| v.len()).unwrap_or(0))
  }

  /// a cardinal wallet output of at least `min` sats, not yet used by the driver
  fn take_cardinal(&mut self, min: u64) -> Result<(OutPoint, Amount)> {
    for (o, v) in self.wallet_utxos() {
      if self.used.contains(&o) || v.to_sat() < min {
        continue;
      }
      if self.balances(o)?.is_empty() && self.insc_count(o)? == 0 {
        self.used.insert(o);
        return Ok((o, v));
      }
    }
    Err(anyhow!("no cardinal output left"))
  }

  fn raw(&mut self, ins: Vec<(OutPoint, Witness)>, outs: Vec<TxOut>) -> Txid {
    let tx = Transaction {
      version: Version(2),
      lock_time: LockTime::ZERO,
      input: ins
        .into_iter()
        .map(|(previous_output, witness)| TxIn { previous_output, script_sig: ScriptBuf::new(), sequence: Sequence::MAX, witness })
        .collect(),
      output: outs,
    };
    let txid = tx.compute_txid();
    self.w.core.state().mempool.push(tx);
    txid
  }

  fn pay(&self, a: &Address, sats: u64) -> TxOut {
    TxOut { value: Amount::from_sat(sats), script_pubkey: a.script_pubkey() }
  }

  fn recv_addr(&mut self) -> Address {
    let i = self.rng.gen_range(0..self.recv.len());
    self.recv[i].clone()
  }

  /// etch `n` runes with raw transactions; each premine lands on a wallet output
  fn etch(&mut self, n: usize, premine: u128) -> Result<Vec<OutPoint>> {
    let mut commits = Vec::new();
    let base = self.rng.gen_range(0..1000usize);
    for i in 0..n {
      let name = format!("{}{}", "VERIFRUNEAAAA", crate::node::rune_from_name(&name_of(base + i * 37)));
      let rune: Rune = name.parse().unwrap();
      let (c, v) = self.take_cardinal(BTC)?;
      let commit_script = crate::node::script_for("tr", 7000 + i as u32);
      let change = self.recv_addr();
      let txid = self.raw(
        vec![(c, Witness::new())],
        vec![TxOut { value: Amount::from_sat(20_000), script_pubkey: commit_script }, self.pay(&change, v.to_sat() - 21_000)],
      );
      commits.push((rune, name, OutPoint { txid, vout: 0 }));
    }
    self.w.mine(6)?;
    let mut premines = Vec::new();
    let mut infos = Vec::new();
    for (i, (rune, name, commit)) in commits.into_iter().enumerate() {
      let div = self.rng.gen_range(0..3u8);
      let terms = i == 0 && self.rng.gen_bool(0.7);
      let stone = Runestone {
        etching: Some(Etching {
          divisibility: Some(div),
          premine: Some(premine),
          rune: Some(rune),
          spacers: None,
          symbol: Some('$'),
          terms: terms.then_some(Terms { amount: Some(7), cap: Some(1000), height: (None, None), offset: (None, None) }),
          turbo: false,
        }),
        ..Default::default()
      };
      let mut wit = Witness::new();
      wit.push(crate::node::push(script::Builder::new(), &rune.commitment()).into_script().as_bytes());
      wit.push(crate::node::control_block());
      let dest = self.recv_addr();
      let txid = self.raw(
        vec![(commit, wit)],
        vec![TxOut { value: Amount::ZERO, script_pubkey: stone.encipher() }, self.pay(&dest, 15_000)],
      );
      premines.push(OutPoint { txid, vout: 1 });
      infos.push((rune, name, div, terms));
    }
    self.w.mine(1)?;
    for (rune, name, div, terms) in infos {
      let (id, _, _) = self.w.index.rune(rune)?.ok_or_else(|| anyhow!("rune {name} was not etched"))?;
      self.runes.push(RuneInfo { rune, name, id, div, terms });
    }
    self.runes.sort_by_key(|r| r.rune);
    Ok(premines)
  }

  /// an inscription revealed onto a foreign output (somebody else's inscription, to make offers for)
  fn inscribe_foreign(&mut self, sats: u64) -> Result<OutPoint> {
    let (a, va) = self.take_cardinal(BTC)?;
    let insc = ord::Inscription { body: Some(b"theirs".to_vec()), content_type: Some(b"text/plain".to_vec()), ..Default::default() };
    let mut wit = Witness::new();
    wit.push(insc.append_reveal_script_to_builder(script::Builder::new()).into_script().as_bytes());
    wit.push(crate::node::control_block());
    let dest = self.foreign[6].clone();
    let change = self.recv_addr();
    let txid = self.raw(vec![(a, wit)], vec![self.pay(&dest, sats), self.pay(&change, va.to_sat() - sats - 2000)]);
    Ok(OutPoint { txid, vout: 0 })
  }

  /// an inscription revealed onto a wallet output of `sats`
  fn inscribe(&mut self, sats: u64) -> Result<OutPoint> {
    let (a, va) = self.take_cardinal(BTC)?;
    let (b, vb) = self.take_cardinal(BTC)?;
    let insc = ord::Inscription { body: Some(b"verif".to_vec()), content_type: Some(b"text/plain".to_vec()), ..Default::default() };
    let mut wit = Witness::new();
    wit.push(insc.append_reveal_script_to_builder(script::Builder::new()).into_script().as_bytes());
    wit.push(crate::node::control_block());
    let total = va.to_sat() + vb.to_sat();
    let dest = self.recv_addr();
    let change = self.recv_addr();
    let txid = self.raw(
      vec![(a, wit), (b, Witness::new())],
      vec![self.pay(&dest, sats), self.pay(&change, total - sats - 2000)],
    );
    Ok(OutPoint { txid, vout: 0 })
  }

  /// distribute the premines over `m` fat wallet outputs; the remainder goes to a last fat output
  fn distribute(&mut self, premines: Vec<OutPoint>, premine: u128, m: usize, first_input: Option<OutPoint>) -> Result<()> {
    let mut ins: Vec<(OutPoint, Witness)> = Vec::new();
    let mut total = 0u64;
    let values: BTreeMap<OutPoint, Amount> = self.wallet_utxos();
    if let Some(f) = first_input {
      total += values[&f].to_sat();
      ins.push((f, Witness::new()));
    }
    for p in &premines {
      total += values[p].to_sat();
      ins.push((*p, Witness::new()));
    }
    let fat = 52 * BTC;
    while total < (m as u64 + 1) * fat + BTC {
      let (c, v) = self.take_cardinal(BTC)?;
      total += v.to_sat();
      ins.push((c, Witness::new()));
    }
    let mut edicts = Vec::new();
    let mut left: Vec<u128> = self.runes.iter().map(|_| premine).collect();
    for j in 1..=m {
      let mut any = false;
      for k in 0..self.runes.len() {
        if self.rng.gen_bool(0.6) || (!any && k + 1 == self.runes.len()) {
          let amt = self.rng.gen_range(1..=9u128).min(left[k]);
          if amt > 0 {
            left[k] -= amt;
            edicts.push(Edict { id: self.runes[k].id, amount: amt, output: j as u32 });
            any = true;
          }
        }
      }
    }
    // most of what is left is burned so that totals stay small; the rest is kept on the last output
    for k in 0..self.runes.len() {
      let keep = self.rng.gen_range(0..=12u128).min(left[k]);
      if left[k] > keep {
        edicts.push(Edict { id: self.runes[k].id, amount: left[k] - keep, output: 0 });
      }
    }
    let stone = Runestone { edicts, pointer: Some(m as u32 + 1), ..Default::default() };
    let mut outs = vec![TxOut { value: Amount::ZERO, script_pubkey: stone.encipher() }];
    for _ in 0..=m {
      let a = self.recv_addr();
      outs.push(self.pay(&a, fat));
    }
    let a = self.recv_addr();
    outs.push(self.pay(&a, total - (m as u64 + 1) * fat - 5000));
    self.raw(ins, outs);
    self.w.mine(1)?;
    Ok(())
  }

  fn inventory(&mut self) -> Result<(Vec<Value>, BTreeMap<OutPoint, Amount>)> {
    let utxos = self.wallet_utxos();
    let mut inv = Vec::new();
    for (o, v) in &utxos {
      let runes = self.balances(*o)?;
      let insc = self.insc_count(*o)?;
      if runes.is_empty() && insc == 0 && v.to_sat() >= 50 * BTC {
        // plain coinbase-sized cardinals are not listed one by one
        continue;
      }
      let l = self.label(*o);
      inv.push(json!({"o": l, "big": v.to_sat() >= 51 * BTC, "runes": runes.iter().map(|(r, a)| json!([r, a])).collect::<Vec<_>>(), "insc": insc}));
    }
    Ok((inv, utxos))
  }

  fn burned(&self) -> Result<BTreeMap<usize, u128>> {
    Ok(self.w.index.runes()?.into_iter().map(|(_, e)| (self.rune_rank(e.spaced_rune.rune), e.burned)).collect())
  }

  fn classify_err(stderr: &str) -> String {
    let s = stderr.to_lowercase();
    if s.contains("zero") {
      "zero".into()
    } else if s.contains("insufficient") || s.contains("but need") {
      "insufficient".into()
    } else if s.contains("not enough cardinal") {
      "funds".into()
    } else if s.contains("panicked") {
      format!("panic:{}", stderr.lines().find(|l| l.contains("panicked")).unwrap_or("").chars().take(160).collect::<String>())
    } else {
      format!("other:{}", stderr.lines().next().unwrap_or("").chars().take(160).collect::<String>())
    }
  }

  /// run one wallet command for real, mine it, and record everything the specification needs
  fn op(&mut self, kind: &str, req: Value, mut args: Vec<String>, dests: &[Address], dry: bool) -> Result<()> {
    self.w.sync()?;
    let (inv, utxos_before) = self.inventory()?;
    let burned_before = self.burned()?;
    self.w.core.state().locked.clear();
    if dry && kind != "offer" {
      args.insert(2, "--dry-run".into());
    }
    let argv: Vec<&str> = args.iter().map(|s| s.as_str()).collect();
    let out = self.w.cli(&argv)?;
    let mut mempool: Vec<Transaction> = self.w.core.state().mempool.clone();
    let broadcast = mempool.len();
    if dry && out.ok {
      // nothing is signed or broadcast: the transaction is the one in the returned PSBT
      if let Some(tx) = out.json["psbt"]
        .as_str()
        .and_then(|b| base64::engine::general_purpose::STANDARD.decode(b).ok())
        .and_then(|b| bitcoin::Psbt::deserialize(&b).ok())
        .map(|p| p.unsigned_tx)
      {
        mempool = vec![tx];
      }
    }
    let locked: Vec<OutPoint> = self.w.core.state().locked.iter().copied().collect();
    let locked_labels: Vec<String> = locked.iter().filter(|o| utxos_before.contains_key(o)).map(|o| self.label(*o)).collect::<Vec<_>>();
    let big_unlocked_cardinals = utxos_before.iter().filter(|(o, v)| v.to_sat() >= 50 * BTC && !locked.contains(o)).count();
    let mut row = json!({"event": "Op", "kind": kind, "req": req, "inv": inv, "ok": out.ok,
      "err": if out.ok { "".to_string() } else { Self::classify_err(&out.stderr) },
      "panic": out.stderr.contains("panicked"), "locked": locked_labels, "ntx": if dry { mempool.len() } else { broadcast }, "broadcast": broadcast, "dry": dry,
      "cardinals": big_unlocked_cardinals, "tag": self.tag});
    if let Some(tx) = mempool.first().cloned() {
      let txid = tx.compute_txid();
      let ins: Vec<Value> = tx
        .input
        .iter()
        .map(|i| {
          let known = utxos_before.contains_key(&i.previous_output);
          json!({"o": self.label(i.previous_output), "wallet": known})
        })
        .collect();
      let outs: Vec<String> = tx
        .output
        .iter()
        .map(|o| {
          if o.script_pubkey.is_op_return() {
            "opret".to_string()
          } else if let Some(k) = dests.iter().position(|d| d.script_pubkey() == o.script_pubkey) {
            format!("d{}", k + 1)
          } else if self.is_wallet_script(&o.script_pubkey) {
            "wallet".to_string()
          } else {
            "other".to_string()
          }
        })
        .collect();
      let (art, edicts, pointer, mint) = match Runestone::decipher(&tx) {
        None => ("none", vec![], -1i64, 0usize),
        Some(Artifact::Cenotaph(_)) => ("ceno", vec![], -1, 0),
        Some(Artifact::Runestone(s)) => (
          "stone",
          s.edicts
            .iter()
            .map(|e| {
              let r = self.runes.iter().position(|r| r.id == e.id).map(|i| i + 1).unwrap_or(0);
              json!([r, e.amount, e.output])
            })
            .collect(),
          s.pointer.map(|p| p as i64).unwrap_or(-1),
          s.mint.map(|m| self.runes.iter().position(|r| r.id == m).map(|i| i + 1).unwrap_or(0)).unwrap_or(0),
        ),
      };
      if !dry {
        self.w.mine(1)?;
      }
      let mut after = Vec::new();
      for vout in 0..tx.output.len() {
        let b = if dry { Vec::new() } else { self.balances(OutPoint { txid, vout: vout as u32 })? };
        after.push(b.iter().map(|(r, a)| json!([r, a])).collect::<Vec<_>>());
      }
      let burned_after = self.burned()?;
      let burned: Vec<Value> = burned_after
        .iter()
        .filter_map(|(r, b)| {
          let d = b - burned_before.get(r).copied().unwrap_or(0);
          (d > 0).then(|| json!([r, d]))
        })
        .collect();
      row["tx"] = json!({"ins": ins, "outs": outs, "art": art, "edicts": edicts, "pointer": pointer, "mint": mint});
      row["after"] = json!({"outs": after, "burned": burned});
      row["hasTx"] = json!(true);
    } else {
      row["hasTx"] = json!(false);
      if !dry {
        self.w.mine(1)?;
      }
    }
    self.rows.push(row);
    Ok(())
  }

  /// boundary amounts of rune r: 1, every prefix sum of the holders' balances (in outpoint order) and its neighbours
  fn boundary_amounts(&mut self, r: usize) -> Result<Vec<u128>> {
    let mut v = vec![0u128, 1];
    let mut acc = 0u128;
    for (o, _) in self.wallet_utxos() {
      if self.insc_count(o)? > 0 {
        continue;
      }
      if let Some((_, a)) = self.balances(o)?.into_iter().find(|(q, _)| *q == r) {
        acc += a;
        v.extend([acc.saturating_sub(1), acc, acc + 1]);
      }
    }
    v.sort();
    v.dedup();
    Ok(v)
  }

  /// every boundary request against the current inventory, as dry runs (nothing is broadcast)
  pub fn systematic_dry_ops(&mut self, max_split: usize) -> Result<()> {
    let nr = self.runes.len();
    let mut bounds = Vec::new();
    for r in 1..=nr {
      bounds.push(self.boundary_amounts(r)?);
    }
    for r in 1..=nr {
      let info = self.runes[r - 1].clone();
      for amt in bounds[r - 1].clone() {
        let dest = self.foreign[0].clone();
        let args = vec!["wallet".into(), "send".into(), "--fee-rate".into(), "1".into(), dest.to_string(), format!("{}:{}", decimal(amt, info.div), info.name)];
        self.op("send", json!({"r": r, "amt": amt}), args, &[dest], true)?;
        let args = vec!["wallet".into(), "burn".into(), "--fee-rate".into(), "1".into(), format!("{}:{}", decimal(amt, info.div), info.name)];
        self.op("burn", json!({"r": r, "amt": amt}), args, &[], true)?;
      }
    }
    // one-output splits: every combination of (absent | boundary amount) per rune, sampled down to max_split
    let mut combos: Vec<Vec<(usize, u128)>> = vec![Vec::new()];
    for r in 1..=nr {
      let mut next = Vec::new();
      for c in &combos {
        next.push(c.clone());
        for a in &bounds[r - 1] {
          let mut c2 = c.clone();
          c2.push((r, *a));
          next.push(c2);
        }
      }
      combos = next;
    }
    combos.retain(|c| !c.is_empty());
    while combos.len() > max_split {
      let k = self.rng.gen_range(0..combos.len());
      combos.swap_remove(k);
    }
    for (n, c) in combos.into_iter().enumerate() {
      // sometimes spread the same totals over two outputs
      let two = self.rng.gen_bool(0.3);
      let mut outs: Vec<Vec<(usize, u128)>> = vec![Vec::new()];
      if two {
        outs.push(Vec::new());
      }
      for (r, a) in &c {
        if two && *a >= 2 {
          let x = self.rng.gen_range(1..*a);
          outs[0].push((*r, x));
          outs[1].push((*r, a - x));
        } else {
          outs[0].push((*r, *a));
        }
      }
      outs.retain(|o| !o.is_empty());
      let mut yaml = String::from("outputs:\n");
      let mut dests = Vec::new();
      for (k, o) in outs.iter().enumerate() {
        let dest = self.foreign[k].clone();
        yaml.push_str(&format!("- address: {dest}\n  runes:\n"));
        for (r, a) in o {
          let i = &self.runes[r - 1];
          yaml.push_str(&format!("    {}: {}\n", i.name, decimal(*a, i.div)));
        }
        dests.push(dest);
      }
      let path = self.w.data.path().join(format!("dsplit{}_{n}.yaml", self.rows.len()));
      std::fs::write(&path, yaml)?;
      let req = json!({"outs": outs.iter().map(|o| o.iter().map(|(r, a)| json!([r, a])).collect::<Vec<_>>()).collect::<Vec<_>>()});
      let args = vec!["wallet".into(), "split".into(), "--fee-rate".into(), "1".into(), "--splits".into(), path.display().to_string()];
      self.op("split", req, args, &dests, true)?;
    }
    Ok(())
  }

  /// `ord wallet balance` next to the wallet's outputs as the node and the index see them
  /// (values as [v / 10^8, v % 10^8]: TLC integers are 32-bit)
  pub fn balance_row(&mut self) -> Result<()> {
    self.w.sync()?;
    self.w.core.state().locked.clear();
    let out = self.w.cli(&["wallet", "balance"])?;
    let pair = |v: u64| json!([v / 100_000_000, v % 100_000_000]);
    let mut outs = Vec::new();
    for (o, v) in self.wallet_utxos() {
      let runes = self.balances(o)?;
      outs.push(json!({"v": pair(v.to_sat()), "insc": self.insc_count(o)? > 0,
        "runes": runes.iter().map(|(r, a)| json!([r, a])).collect::<Vec<_>>()}));
    }
    let j = &out.json;
    let get = |k: &str| pair(j[k].as_u64().unwrap_or(0));
    let mut reported: Vec<(usize, u128)> = Vec::new();
    if let Some(m) = j["runes"].as_object() {
      for (name, amount) in m {
        let rune: Rune = name.replace('•', "").parse().map_err(|_| anyhow!("rune name {name}"))?;
        let r = self.rune_rank(rune);
        let div = self.runes.get(r.wrapping_sub(1)).map(|i| i.div).unwrap_or(0);
        // the command prints decimals; back to atomic units
        let text = amount.as_str().map(|s| s.to_string()).unwrap_or_else(|| amount.to_string());
        let (int, frac) = text.split_once('.').unwrap_or((&text, ""));
        let mut frac = frac.to_string();
        while frac.len() < div as usize {
          frac.push('0');
        }
        let atoms: u128 = format!("{int}{frac}").parse().unwrap_or(u128::MAX);
        reported.push((r, atoms));
      }
    }
    reported.sort();
    self.rows.push(json!({"event": "Balance", "tag": self.tag, "ok": out.ok, "outs": outs,
      "cardinal": get("cardinal"), "ordinal": get("ordinal"), "runic": get("runic"), "total": get("total"),
      "runes": reported.iter().map(|(r, a)| json!([r, a])).collect::<Vec<_>>(),
      "warned": out.stderr.contains("contains both inscriptions and runes")}));
    Ok(())
  }

  fn totals(&mut self) -> Result<(BTreeMap<usize, u128>, BTreeMap<usize, u128>)> {
    // (total per rune over runic, uninscribed wallet outputs; balance of the first such holder)
    let mut tot = BTreeMap::new();
    let mut first = BTreeMap::new();
    for (o, _) in self.wallet_utxos() {
      if self.insc_count(o)? > 0 {
        continue;
      }
      for (r, a) in self.balances(o)? {
        *tot.entry(r).or_insert(0) += a;
        first.entry(r).or_insert(a);
      }
    }
    Ok((tot, first))
  }

  fn pick_amount(&mut self, r: usize, tot: &BTreeMap<usize, u128>, first: &BTreeMap<usize, u128>) -> u128 {
    let t = tot.get(&r).copied().unwrap_or(0);
    let f = first.get(&r).copied().unwrap_or(0);
    match self.rng.gen_range(0..9) {
      0 => 0,
      1 => 1,
      2 => f,
      3 => f + 1,
      4 => t,
      5 => t + 1,
      6 => f.saturating_sub(1),
      _ => {
        if t == 0 { 1 } else { self.rng.gen_range(1..=t) }
      }
    }
  }

  pub fn random_op(&mut self) -> Result<()> {
    self.w.sync()?;
    let (tot, first) = self.totals()?;
    let nr = self.runes.len();
    let r = self.rng.gen_range(1..=nr);
    let info = self.runes[r - 1].clone();
    let fee = "1".to_string();
    match self.rng.gen_range(0..13) {
      12 => {
        // send one of the wallet's inscriptions (ordinal-aware builder, end to end)
        let mut held = Vec::new();
        for (o, _) in self.wallet_utxos() {
          for id in self.w.index.get_inscriptions_for_output(o)?.unwrap_or_default() {
            held.push((id, o));
          }
        }
        if held.is_empty() {
          return Ok(());
        }
        let (id, from) = held[self.rng.gen_range(0..held.len())];
        let dest = self.foreign[5].clone();
        let mut before = Vec::new();
        for (other, o) in &held {
          if *other != id {
            before.push((*other, self.w.index.get_inscription_satpoint_by_id(*other)?, *o));
          }
        }
        let from_label = self.label(from);
        let from_runic = !self.balances(from)?.is_empty();
        let from_count = self.insc_count(from)?;
        let args = vec!["wallet".into(), "send".into(), "--fee-rate".into(), fee, dest.to_string(), id.to_string()];
        self.op("sendinsc", json!({"from": from_label, "fromRunic": from_runic, "fromCount": from_count}), args, &[dest.clone()], false)?;
        // where everything is afterwards
        let sp = self.w.index.get_inscription_satpoint_by_id(id)?;
        let owner = sp
          .and_then(|sp| self.tx_of(sp.outpoint.txid).and_then(|t| t.output.get(sp.outpoint.vout as usize).map(|x| self.owner(&x.script_pubkey))))
          .unwrap_or("none".into());
        let mut moved = 0;
        for (other, was, o) in &before {
          if *o != from && self.w.index.get_inscription_satpoint_by_id(*other)? != *was {
            moved += 1;
          }
        }
        let mut companions_kept = true;
        for (other, _, o) in &before {
          if *o == from {
            // an inscription that shared the output must still be the wallet's
            let now = self.w.index.get_inscription_satpoint_by_id(*other)?;
            let own = now
              .and_then(|sp| self.tx_of(sp.outpoint.txid).and_then(|t| t.output.get(sp.outpoint.vout as usize).map(|x| self.owner(&x.script_pubkey))))
              .unwrap_or("none".into());
            if own != "wallet" {
              companions_kept = false;
            }
          }
        }
        if let Some(row) = self.rows.last_mut() {
          row["sent"] = json!({"owner": if owner == "d6" { "d1".to_string() } else { owner }, "offset": sp.map(|s| s.offset.min(2_000_000_000)).unwrap_or(0), "othersMoved": moved, "companionsKept": companions_kept});
        }
        Ok(())
      }
      10 | 11 => {
        // an offer for somebody else's inscription: node-funded, returns a PSBT, broadcasts nothing
        let Some(theirs) = self.theirs else { return Ok(()) };
        let Some(id) = self.w.index.get_inscriptions_for_output(theirs)?.unwrap_or_default().first().copied() else { return Ok(()) };
        let args = vec!["wallet".into(), "offer".into(), "create".into(), "--inscription".into(), id.to_string(), "--amount".into(), "2btc".into(),
          "--fee-rate".into(), "1".into()];
        let dest = self.foreign[6].clone();
        self.op("offer", json!({}), args, &[dest], true)
      }
      0..=2 => {
        let amt = self.pick_amount(r, &tot, &first);
        let d = self.rng.gen_range(0..self.foreign.len());
        let dest = self.foreign[d].clone();
        let mut args = vec!["wallet".into(), "send".into(), "--fee-rate".into(), fee, dest.to_string(), format!("{}:{}", decimal(amt, info.div), info.name)];
        if self.rng.gen_bool(0.3) {
          args.insert(2, "--postage".into());
          args.insert(3, "777sat".into());
        }
        self.op("send", json!({"r": r, "amt": amt}), args, &[dest], false)
      }
      3..=4 => {
        let amt = self.pick_amount(r, &tot, &first);
        let args = vec!["wallet".into(), "burn".into(), "--fee-rate".into(), fee, format!("{}:{}", decimal(amt, info.div), info.name)];
        self.op("burn", json!({"r": r, "amt": amt}), args, &[], false)
      }
      5..=7 => {
        let n = self.rng.gen_range(1..=3usize);
        let mut dests = Vec::new();
        let mut outs = Vec::new();
        let mut yaml = String::from("outputs:\n");
        for k in 0..n {
          let dest = self.foreign[k].clone();
          yaml.push_str(&format!("- address: {dest}\n"));
          if self.rng.gen_bool(0.3) {
            yaml.push_str("  value: 2000 sat\n");
          }
          yaml.push_str("  runes:\n");
          let mut entry = Vec::new();
          for q in 1..=nr {
            if self.rng.gen_bool(0.55) || (entry.is_empty() && q == nr) {
              let t = tot.get(&q).copied().unwrap_or(0);
              let amt = match self.rng.gen_range(0..12) {
                0 => 0,
                1 => t + 1,
                2 => t,
                _ => self.rng.gen_range(1..=(t / n as u128).max(1)),
              };
              let i = &self.runes[q - 1];
              yaml.push_str(&format!("    {}: {}\n", i.name, decimal(amt, i.div)));
              entry.push(json!([q, amt]));
            }
          }
          outs.push(entry);
          dests.push(dest);
        }
        let path = self.w.data.path().join(format!("split{}.yaml", self.rows.len()));
        std::fs::write(&path, yaml)?;
        let args = vec!["wallet".into(), "split".into(), "--fee-rate".into(), fee, "--splits".into(), path.display().to_string()];
        self.op("split", json!({"outs": outs}), args, &dests, false)
      }
      8 => {
        if let Some(t) = self.runes.iter().position(|r| r.terms) {
          let name = self.runes[t].name.clone();
          let args = vec!["wallet".into(), "mint".into(), "--fee-rate".into(), fee, "--rune".into(), name];
          self.op("mint", json!({"r": t + 1}), args, &[], false)
        } else {
          Ok(())
        }
      }
      _ => {
        let dest = self.foreign[7].clone();
        let args = vec!["wallet".into(), "send".into(), "--fee-rate".into(), fee, dest.to_string(), "3btc".into()];
        self.op("sendbtc", json!({}), args, &[dest], false)
      }
    }
  }
}

fn name_of(n: usize) -> String {
  let mut s = String::new();
  let mut k = n;
  for _ in 0..4 {
    s.push((b'A' + (k % 26) as u8) as char);
    k /= 26;
  }
  s
}

/// ordv wallet-runes --seed N --worlds W --ops K --out trace.ndjson
pub fn runes_trace(seed: u64, worlds: usize, ops: usize, dry_splits: usize, out: &str) -> Result<()> {
  let mut all = Vec::new();
  for wi in 0..worlds {
    let s = seed.wrapping_mul(1000).wrapping_add(wi as u64);
    let mut c = Ctx::new(s, &format!("seed={seed} world={wi}"))?;
    c.w.mine(30)?;
    let nr = c.rng.gen_range(1..=3usize);
    let premine = 60u128;
    let premines = c.etch(nr, premine)?;
    let n_insc = c.rng.gen_range(0..=2usize);
    let mut inscribed = Vec::new();
    for _ in 0..n_insc {
      inscribed.push(c.inscribe(53 * BTC)?);
    }
    c.theirs = Some(c.inscribe_foreign(10_000)?);
    c.w.mine(1)?;
    let m = c.rng.gen_range(1..=4usize);
    let first = if !inscribed.is_empty() && c.rng.gen_bool(0.5) { inscribed.pop() } else { None };
    c.distribute(premines, premine, m, first)?;
    let runes: Vec<Value> = {
      let mut by_id: Vec<RuneId> = c.runes.iter().map(|r| r.id).collect();
      by_id.sort();
      c.runes
        .iter()
        .enumerate()
        .map(|(i, r)| json!({"r": i + 1, "idr": by_id.iter().position(|x| *x == r.id).unwrap() + 1, "div": r.div, "terms": r.terms}))
        .collect()
    };
    c.rows.push(json!({"event": "World", "runes": runes, "tag": c.tag}));
    c.balance_row()?;
    c.systematic_dry_ops(dry_splits)?;
    for k in 0..ops {
      c.random_op()?;
      if k % 3 == 2 {
        c.balance_row()?;
      }
    }
    c.w.handle.shutdown();
    all.append(&mut c.rows);
  }
  crate::write_trace(out, &all)
}

// ------------------------------------------------------------------------------------------------
// C24 driver: PSBTs a counterparty could present, run through the real `ord wallet offer accept`.

use base64::Engine as _;

struct Pool {
  /// class name -> (outpoint, value, wallet-owned, inscription labels, has runes)
  outs: Vec<(String, OutPoint, u64, bool, Vec<String>, bool)>,
  ids: BTreeMap<String, ord::InscriptionId>,
}

impl Ctx {
  /// two inscriptions revealed onto the same wallet output
  fn inscribe_two(&mut self, sats: u64) -> Result<OutPoint> {
    let (a, va) = self.take_cardinal(BTC)?;
    let mut b = script::Builder::new();
    for body in [b"one".to_vec(), b"two".to_vec()] {
      let insc = ord::Inscription { body: Some(body), content_type: Some(b"text/plain".to_vec()), ..Default::default() };
      b = insc.append_reveal_script_to_builder(b);
    }
    let mut wit = Witness::new();
    wit.push(b.into_script().as_bytes());
    wit.push(crate::node::control_block());
    let dest = self.recv_addr();
    let change = self.recv_addr();
    let txid = self.raw(vec![(a, wit)], vec![self.pay(&dest, sats), self.pay(&change, va.to_sat() - sats - 2000)]);
    Ok(OutPoint { txid, vout: 0 })
  }

  fn offer_pool(&mut self) -> Result<Pool> {
    self.w.mine(30)?;
    let premine = 60u128;
    let premines = self.etch(1, premine)?;
    let wx = self.inscribe(20_000)?;
    let wy = self.inscribe(30_000)?;
    let wxy = self.inscribe_two(40_000)?;
    let wxr_src = self.inscribe(53 * BTC)?;
    // foreign cardinals
    let (c, v) = self.take_cardinal(BTC)?;
    let f: Vec<Address> = self.foreign[0..3].to_vec();
    let change = self.recv_addr();
    let ftx = self.raw(
      vec![(c, Witness::new())],
      vec![self.pay(&f[0], 2 * BTC), self.pay(&f[1], BTC), self.pay(&f[2], BTC / 2), self.pay(&change, v.to_sat() - 3 * BTC - BTC / 2 - 2000)],
    );
    self.w.mine(1)?;
    self.distribute(premines, premine, 2, Some(wxr_src))?;
    self.w.sync()?;
    // classify every wallet output the index knows something about
    let mut pool = Pool { outs: Vec::new(), ids: BTreeMap::new() };
    let utxos = self.wallet_utxos();
    let mut n_insc = 0;
    let mut label_of = |id: ord::InscriptionId, pool: &mut Pool| -> String {
      if let Some((l, _)) = pool.ids.iter().find(|(_, v)| **v == id) {
        return l.clone();
      }
      n_insc += 1;
      let l = format!("i{n_insc}");
      pool.ids.insert(l.clone(), id);
      l
    };
    let mut cardinals = 0;
    for (o, v) in &utxos {
      let ids = self.w.index.get_inscriptions_for_output(*o)?.unwrap_or_default();
      let runes = !self.balances(*o)?.is_empty();
      if ids.is_empty() && !runes {
        if cardinals < 2 && v.to_sat() >= BTC {
          cardinals += 1;
          pool.outs.push((format!("wc{cardinals}"), *o, v.to_sat(), true, vec![], false));
        }
        continue;
      }
      let labels: Vec<String> = ids.iter().map(|i| label_of(*i, &mut pool)).collect();
      let name = if *o == wx {
        "wX".to_string()
      } else if *o == wy {
        "wY".to_string()
      } else if *o == wxy {
        "wXY".to_string()
      } else if !labels.is_empty() && runes {
        "wXr".to_string()
      } else {
        format!("wr{}", pool.outs.len())
      };
      pool.outs.push((name, *o, v.to_sat(), true, labels, runes));
    }
    for (k, val) in [(0u32, 2 * BTC), (1, BTC), (2, BTC / 2)] {
      pool.outs.push((format!("f{}", k + 1), OutPoint { txid: ftx, vout: k }, val, false, vec![], false));
    }
    Ok(pool)
  }

  fn offer_case(&mut self, pool: &Pool, n: usize) -> Result<()> {
    // start from a well-formed offer for wX and damage it
    let find = |name: &str| pool.outs.iter().position(|o| o.0 == name).unwrap();
    let seller = if self.rng.gen_bool(0.5) {
      find("wX")
    } else {
      let cands: Vec<usize> = (0..pool.outs.len()).filter(|i| pool.outs[*i].3).collect();
      cands[self.rng.gen_range(0..cands.len())]
    };
    let mut ins: Vec<(usize, &str)> = vec![(find("f1"), "std"), (seller, "none")];
    let mut claim_from = seller;
    let mut price: i64 = 150_000;
    let mut named: i64 = price;
    let mutations = match self.rng.gen_range(0..20) {
      0..=2 => 0,
      3..=9 => 1,
      10..=16 => 2,
      _ => 3,
    };
    for _ in 0..mutations {
      if ins.is_empty() {
        // earlier mutations may have removed every input
        ins.push((find("f2"), "std"));
      }
      match self.rng.gen_range(0..14) {
        13 => {
          // the wallet would PAY the named amount instead of receiving it
          named = [5_000i64, 9_000, 1][self.rng.gen_range(0..3)];
          price = -named;
        }
        11 | 12 => {
          // a buyer signature the node will not preserve
          if let Some(k) = ins.iter().position(|x| !pool.outs[x.0].3) {
            ins[k].1 = "odd";
          }
        }
        0 => {
          // the seller input is a different wallet output
          let cands: Vec<usize> = (0..pool.outs.len()).filter(|i| pool.outs[*i].3 && !ins.iter().any(|x| x.0 == *i)).collect();
          let k = cands[self.rng.gen_range(0..cands.len())];
          let pos = ins.iter().position(|x| pool.outs[x.0].3).unwrap_or(0);
          ins[pos].0 = k;
          if self.rng.gen_bool(0.5) {
            claim_from = k;
          }
        }
        1 => {
          // one more wallet input
          let cands: Vec<usize> = (0..pool.outs.len()).filter(|i| pool.outs[*i].3 && !ins.iter().any(|x| x.0 == *i)).collect();
          let k = cands[self.rng.gen_range(0..cands.len())];
          let sig = ["none", "std"][self.rng.gen_range(0..2)];
          ins.push((k, sig));
        }
        2 => {
          // one more foreign input
          let cands: Vec<usize> = (0..pool.outs.len()).filter(|i| !pool.outs[*i].3 && !ins.iter().any(|x| x.0 == *i)).collect();
          if !cands.is_empty() {
            let k = cands[self.rng.gen_range(0..cands.len())];
            let sig = ["none", "std", "std", "odd"][self.rng.gen_range(0..4)];
            ins.push((k, sig));
          }
        }
        3 => {
          let k = self.rng.gen_range(0..ins.len());
          ins[k].1 = ["none", "std", "odd"][self.rng.gen_range(0..3)];
        }
        4 => named = price + [-1i64, 1, 1000, -150_000][self.rng.gen_range(0..4)],
        5 => price += [-1i64, 1, 20_000][self.rng.gen_range(0..3)],
        6 => ins.retain(|x| !pool.outs[x.0].3),
        7 => ins.reverse(),
        8 => {
          // name an inscription that is elsewhere
          let others: Vec<usize> = (0..pool.outs.len()).filter(|i| !pool.outs[*i].4.is_empty()).collect();
          claim_from = others[self.rng.gen_range(0..others.len())];
        }
        9 => ins.retain(|x| pool.outs[x.0].3),
        _ => {
          let k = self.rng.gen_range(0..ins.len());
          ins.swap(0, k);
        }
      }
    }
    if ins.is_empty() {
      ins.push((find("f2"), "std"));
    }
    let claim_labels = &pool.outs[claim_from].4;
    let claim = if claim_labels.is_empty() { pool.ids.keys().next().unwrap().clone() } else { claim_labels[self.rng.gen_range(0..claim_labels.len())].clone() };
    // outputs: the seller's sats go to the buyer, the price to the wallet, the rest back to the buyer
    let wallet_in: i64 = ins.iter().filter(|x| pool.outs[x.0].3).map(|x| pool.outs[x.0].2 as i64).sum();
    let total_in: i64 = ins.iter().map(|x| pool.outs[x.0].2 as i64).sum();
    let to_wallet = (wallet_in + price).max(600);
    let dest = self.recv_addr();
    let mut outs = vec![self.pay(&dest, to_wallet as u64)];
    let rest = total_in - to_wallet - 1000;
    if rest > 600 {
      outs.insert(0, self.pay(&self.foreign[4].clone(), rest as u64));
    }
    if total_in < to_wallet + 1000 {
      // not fundable from these inputs: skip
      return Ok(());
    }
    let tx = Transaction {
      version: Version(2),
      lock_time: LockTime::ZERO,
      input: ins
        .iter()
        .map(|x| TxIn { previous_output: pool.outs[x.0].1, script_sig: ScriptBuf::new(), sequence: Sequence::MAX, witness: Witness::new() })
        .collect(),
      output: outs,
    };
    let mut psbt = bitcoin::Psbt::from_unsigned_tx(tx.clone())?;
    for (k, x) in ins.iter().enumerate() {
      psbt.inputs[k].final_script_witness = match x.1 {
        "std" => Some(Witness::from_slice(&[&[0u8; 64]])),
        "odd" => Some(Witness::from_slice(&[&[7u8; 64]])),
        _ => None,
      };
    }
    let b64 = base64::engine::general_purpose::STANDARD.encode(psbt.serialize());
    let change = to_wallet - wallet_in;
    self.w.core.state().mempool.clear();
    self.w.core.state().locked.clear();
    let args = vec!["wallet".to_string(), "offer".into(), "accept".into(), "--inscription".into(), pool.ids[&claim].to_string(), "--amount".into(),
      format!("{named}sat"), "--psbt".into(), b64];
    let argv: Vec<&str> = args.iter().map(|s| s.as_str()).collect();
    let out = if named >= 0 { self.w.cli(&argv)? } else { return Ok(()) };
    let mempool: Vec<Transaction> = self.w.core.state().mempool.clone();
    self.w.core.state().mempool.clear();
    let mut row = json!({"event": "Offer", "n": n, "tag": self.tag,
      "ins": ins.iter().map(|x| { let o = &pool.outs[x.0]; json!({"name": o.0, "owner": if o.3 { "wallet" } else { "foreign" }, "insc": o.4, "runes": o.5, "sig": x.1}) }).collect::<Vec<_>>(),
      "claim": claim, "changeEq": change == named, "change": change.to_string(), "named": named.to_string(),
      "ok": out.ok, "panic": out.stderr.contains("panicked"),
      "err": if out.ok { "".to_string() } else { out.stderr.lines().next().unwrap_or("").chars().take(140).collect::<String>() },
      "ntx": mempool.len()});
    if let Some(btx) = mempool.first() {
      let same_tx = btx.compute_txid() == tx.compute_txid();
      let kept: Vec<bool> = (0..ins.len())
        .map(|k| match ins[k].1 {
          "none" => true,
          _ => same_tx && psbt.inputs[k].final_script_witness.as_ref() == Some(&btx.input[k].witness),
        })
        .collect();
      let signed: Vec<bool> = (0..ins.len()).map(|k| same_tx && !btx.input[k].witness.is_empty()).collect();
      row["tx"] = json!({"same": same_tx, "kept": kept, "signed": signed});
    }
    self.rows.push(row);
    Ok(())
  }
}

/// ordv wallet-offers --seed N --worlds W --cases K --out trace.ndjson
pub fn offers_trace(seed: u64, worlds: usize, cases: usize, out: &str) -> Result<()> {
  let mut all = Vec::new();
  for wi in 0..worlds {
    let s = seed.wrapping_mul(1000).wrapping_add(wi as u64);
    let mut c = Ctx::new(s, &format!("seed={seed} world={wi}"))?;
    let pool = c.offer_pool()?;
    c.rows.push(json!({"event": "Pool", "tag": c.tag,
      "outs": pool.outs.iter().map(|o| json!({"name": o.0, "wallet": o.3, "insc": o.4, "runes": o.5})).collect::<Vec<_>>()}));
    for n in 0..cases {
      c.offer_case(&pool, n)?;
    }
    c.w.handle.shutdown();
    all.append(&mut c.rows);
  }
  crate::write_trace(out, &all)
}

// ------------------------------------------------------------------------------------------------
// C21 driver: random batch files through the real `ord wallet batch`, mined and indexed.

impl World {
  pub fn get_json(&self, path: &str) -> Result<Value> {
    let resp = reqwest::blocking::Client::new()
      .get(format!("http://127.0.0.1:{}{path}", self.port))
      .header("accept", "application/json")
      .send()?;
    Ok(resp.json().unwrap_or(Value::Null))
  }
}

struct BatchState {
  /// parent label -> inscription id
  parents: Vec<(String, ord::InscriptionId)>,
  labels: BTreeMap<ord::InscriptionId, String>,
  small: Vec<OutPoint>,
  rune_no: usize,
  /// an inscription that is nobody's parent, for reinscription
  junk: ord::InscriptionId,
}

impl Ctx {
  fn owner(&self, s: &ScriptBuf) -> String {
    if self.is_wallet_script(s) {
      "wallet".into()
    } else if let Some(k) = self.foreign.iter().position(|a| a.script_pubkey() == *s) {
      format!("d{}", k + 1)
    } else if s.is_op_return() {
      "opret".into()
    } else {
      "other".into()
    }
  }

  fn tx_of(&self, txid: Txid) -> Option<Transaction> {
    self.w.core.state().transactions.get(&txid).cloned()
  }

  fn batch_op(&mut self, bs: &mut BatchState, n_op: usize) -> Result<()> {
    self.w.sync()?;
    let modes = ["shared-output", "separate-outputs", "same-sat", "satpoints"];
    let mut mode = modes[self.rng.gen_range(0..4)];
    let count = self.rng.gen_range(1..=4usize);
    // earlier commit transactions may have spent some of the small cardinals
    let live = self.wallet_utxos();
    bs.small.retain(|o| live.contains_key(o));
    if mode == "satpoints" && bs.small.len() < count {
      mode = "separate-outputs";
    }
    let postage: Option<u64> = match self.rng.gen_range(0..4) {
      0 => None,
      1 => Some(777),
      2 => Some(12_345),
      _ => Some(3_000),
    };
    let n_par = self.rng.gen_range(0..=bs.parents.len().min(2));
    let mut par_idx: Vec<usize> = (0..bs.parents.len()).collect();
    for i in (1..par_idx.len()).rev() {
      par_idx.swap(i, self.rng.gen_range(0..=i));
    }
    par_idx.truncate(n_par);
    let etch = self.rng.gen_bool(0.25);
    let premine: u128 = if etch { [0u128, 1000, 25][self.rng.gen_range(0..3)] } else { 0 };
    let divisibility = self.rng.gen_range(0..3u8);
    let mut yaml = format!("mode: {mode}\n");
    if !par_idx.is_empty() {
      yaml.push_str("parents:\n");
      for i in &par_idx {
        yaml.push_str(&format!("- {}\n", bs.parents[*i].1));
      }
    }
    if mode != "satpoints" {
      if let Some(p) = postage {
        yaml.push_str(&format!("postage: {p}\n"));
      }
    }
    // same-sat on a chosen satpoint: a cardinal output, or (reinscribe) the sat of an inscription the wallet holds
    let mut subject: Option<OutPoint> = None;
    let mut subject_sat_named: Option<u64> = None;
    if mode == "same-sat" && !etch {
      match self.rng.gen_range(0..5) {
        4 if !bs.small.is_empty() => {
          // name the sat itself: the first sat of a small cardinal output
          let o = bs.small.remove(0);
          if let Some(n) = self.w.get_json(&format!("/output/{o}"))?["sat_ranges"].as_array().and_then(|r| r.first()).and_then(|r| r[0].as_u64()) {
            yaml.push_str(&format!("sat: {n}\n"));
            subject = Some(o);
            subject_sat_named = Some(n);
          }
        }
        0 if !bs.small.is_empty() => {
          let o = bs.small.remove(0);
          yaml.push_str(&format!("satpoint: {o}:0\n"));
          subject = Some(o);
        }
        1 => {
          if let Some(sp) = self.w.index.get_inscription_satpoint_by_id(bs.junk)? {
            if self.wallet_utxos().contains_key(&sp.outpoint) {
              yaml.push_str(&format!("satpoint: {sp}\nreinscribe: true\n"));
              subject = Some(sp.outpoint);
            }
          }
        }
        _ => {}
      }
    }
    let mut rune_name = String::new();
    if etch {
      bs.rune_no += 1;
      rune_name = format!("BATCHRUNEAAAA{}", name_of(self.rng.gen_range(0..400_000) + bs.rune_no));
      let terms = self.rng.gen_bool(0.5) || premine == 0;
      let supply = premine + if terms { 5 * 10 } else { 0 };
      yaml.push_str(&format!(
        "etching:\n  rune: {rune_name}\n  divisibility: {divisibility}\n  premine: {}\n  supply: {}\n  symbol: $\n  turbo: false\n",
        decimal(premine, divisibility),
        decimal(supply, divisibility)
      ));
      if terms {
        yaml.push_str(&format!("  terms:\n    amount: {}\n    cap: 5\n", decimal(10, divisibility)));
      }
    }
    yaml.push_str("inscriptions:\n");
    let mut satpoints = Vec::new();
    let mut sat_values = Vec::new();
    let mut dests: Vec<Option<Address>> = Vec::new();
    for k in 0..count {
      let path = self.w.data.path().join(format!("b{n_op}_{k}.txt"));
      std::fs::write(&path, format!("verif batch {n_op} {k} {}", self.tag))?;
      yaml.push_str(&format!("- file: {}\n", path.display()));
      if mode == "satpoints" {
        let o = bs.small.remove(0);
        sat_values.push(self.wallet_utxos()[&o].to_sat());
        yaml.push_str(&format!("  satpoint: {o}:0\n"));
        satpoints.push(o);
      }
      if (mode == "separate-outputs" || mode == "satpoints") && self.rng.gen_bool(0.4) {
        let d = self.foreign[self.rng.gen_range(0..4)].clone();
        yaml.push_str(&format!("  destination: {d}\n"));
        dests.push(Some(d));
      } else {
        dests.push(None);
      }
      if self.rng.gen_bool(0.3) {
        yaml.push_str(&format!("  metadata:\n    title: item {k}\n    n: {k}\n"));
      }
      if self.rng.gen_bool(0.2) && !bs.parents.is_empty() {
        yaml.push_str(&format!("  delegate: {}\n", bs.parents[0].1));
      }
    }
    let path = self.w.data.path().join(format!("batch{n_op}.yaml"));
    std::fs::write(&path, &yaml)?;
    // the sat the batch was told to inscribe (first sat of the chosen satpoint), from the explorer's sat ranges
    let subject_sat: Option<u64> = if subject_sat_named.is_some() { subject_sat_named } else { match subject {
      Some(o) => self.w.get_json(&format!("/output/{o}"))?["sat_ranges"].as_array().and_then(|r| r.first()).and_then(|r| r[0].as_u64()),
      None => None,
    } };
    // before
    let (inv, utxos_before) = self.inventory()?;
    let non_cardinal: std::collections::BTreeSet<OutPoint> = utxos_before
      .keys()
      .filter(|o| !self.balances(**o).unwrap_or_default().is_empty() || self.insc_count(**o).unwrap_or(0) > 0)
      .copied()
      .collect();
    let mut parent_before = Vec::new();
    for i in &par_idx {
      let sp = self.w.index.get_inscription_satpoint_by_id(bs.parents[*i].1)?.ok_or_else(|| anyhow!("parent satpoint"))?;
      parent_before.push(sp.outpoint);
    }
    self.w.core.state().locked.clear();
    let fee_rate = ["1", "2.5", "5"][self.rng.gen_range(0..3)];
    let args = vec!["wallet".to_string(), "batch".into(), "--fee-rate".into(), fee_rate.into(), "--batch".into(), path.display().to_string()];
    let argv: Vec<&str> = args.iter().map(|s| s.as_str()).collect();
    let out = if etch { self.w.cli_mining(&argv, 9)? } else { self.w.cli(&argv)? };
    self.w.mine(1)?;
    let _ = inv;
    let effective_postages: Vec<u64> = if mode == "satpoints" { sat_values.clone() } else { (0..count).map(|_| postage.unwrap_or(10_000)).collect() };
    let mut row = json!({"event": "Batch", "tag": self.tag, "n": n_op, "mode": mode, "count": count, "postages": effective_postages,
      "subject": subject.is_some(), "nparents": par_idx.len(), "parents": par_idx.iter().map(|i| bs.parents[*i].0.clone()).collect::<Vec<_>>(),
      "etch": etch, "premine": premine, "ok": out.ok, "panic": out.stderr.contains("panicked"),
      "err": if out.ok { "".to_string() } else { out.stderr.lines().next().unwrap_or("").chars().take(160).collect::<String>() }});
    if !out.ok {
      // satpoints that were not consumed stay available
      for o in satpoints {
        if self.wallet_utxos().contains_key(&o) {
          bs.small.push(o);
        }
      }
      self.rows.push(row);
      return Ok(());
    }
    let j = &out.json;
    let reveal: Txid = j["reveal"].as_str().unwrap_or("").parse().map_err(|_| anyhow!("no reveal txid in {}", out.stdout))?;
    let commit: Txid = j["commit"].as_str().unwrap_or("").parse().map_err(|_| anyhow!("no commit txid"))?;
    let reveal_tx = self.tx_of(reveal);
    let commit_tx = self.tx_of(commit);
    row["mined"] = json!(reveal_tx.is_some() && commit_tx.is_some());
    let mut reported = Vec::new();
    let mut indexed = Vec::new();
    let empty = Vec::new();
    for (i, r) in j["inscriptions"].as_array().unwrap_or(&empty).iter().enumerate() {
      let id: ord::InscriptionId = r["id"].as_str().unwrap_or("").parse().map_err(|_| anyhow!("bad id"))?;
      let loc: ordinals::SatPoint = r["location"].as_str().unwrap_or("").parse().map_err(|_| anyhow!("bad location"))?;
      let dest = r["destination"].as_str().unwrap_or("").to_string();
      let script_at = |sp: &ordinals::SatPoint| -> Option<ScriptBuf> {
        self.tx_of(sp.outpoint.txid).and_then(|t| t.output.get(sp.outpoint.vout as usize).map(|o| o.script_pubkey.clone()))
      };
      let dest_script = dest.parse::<Address<bitcoin::address::NetworkUnchecked>>().ok().map(|a| a.assume_checked().script_pubkey());
      let want_dest = dests.get(i).cloned().flatten().map(|a| a.script_pubkey());
      reported.push(json!({"idOk": id.txid == reveal && id.index as usize == i, "sameTx": loc.outpoint.txid == reveal, "vout": loc.outpoint.vout, "off": loc.offset,
        "destOk": dest_script.is_some() && script_at(&loc) == dest_script,
        "destAsAsked": want_dest.is_none() || want_dest == dest_script}));
      let entry = self.w.index.get_inscription_entry(id)?;
      let sp = self.w.index.get_inscription_satpoint_by_id(id)?;
      let info = self.w.get_json(&format!("/inscription/{id}"))?;
      let parents: Vec<String> = info["parents"]
        .as_array()
        .unwrap_or(&empty)
        .iter()
        .map(|p| p.as_str().and_then(|s| s.parse::<ord::InscriptionId>().ok()).and_then(|p| bs.labels.get(&p).cloned()).unwrap_or("?".into()))
        .collect();
      indexed.push(match (entry, sp) {
        (Some(e), Some(sp)) => json!({"exists": true, "sameTx": sp.outpoint.txid == reveal, "vout": sp.outpoint.vout, "off": sp.offset,
          "parents": parents, "owner": script_at(&sp).map(|s| self.owner(&s)).unwrap_or("none".into()), "num": e.inscription_number,
          "apiSatpoint": info["satpoint"].as_str().unwrap_or("") == sp.to_string(),
          "onSubjectSat": subject_sat.is_none() || info["sat"].as_u64() == subject_sat}),
        _ => json!({"exists": false, "sameTx": false, "vout": -1, "off": -1, "parents": [], "owner": "none", "num": 0, "apiSatpoint": false, "onSubjectSat": false}),
      });
      bs.labels.insert(id, format!("n{n_op}_{i}"));
    }
    let extra_id = ord::InscriptionId { txid: reveal, index: reported.len() as u32 };
    row["extra"] = json!(self.w.index.get_inscription_entry(extra_id)?.is_some());
    row["reported"] = json!(reported);
    row["indexed"] = json!(indexed);
    row["reportedParents"] = json!(j["parents"].as_array().unwrap_or(&empty).iter()
      .map(|p| p.as_str().and_then(|s| s.parse::<ord::InscriptionId>().ok()).and_then(|p| bs.labels.get(&p).cloned()).unwrap_or("?".into())).collect::<Vec<_>>());
    let mut parents_after = Vec::new();
    for (k, i) in par_idx.iter().enumerate() {
      let sp = self.w.index.get_inscription_satpoint_by_id(bs.parents[*i].1)?.ok_or_else(|| anyhow!("parent satpoint after"))?;
      let script = self.tx_of(sp.outpoint.txid).and_then(|t| t.output.get(sp.outpoint.vout as usize).map(|o| o.script_pubkey.clone()));
      parents_after.push(json!({"l": bs.parents[*i].0, "sameTx": sp.outpoint.txid == reveal, "vout": sp.outpoint.vout, "off": sp.offset,
        "owner": script.map(|s| self.owner(&s)).unwrap_or("none".into()), "moved": sp.outpoint != parent_before[k]}));
    }
    row["parentsAfter"] = json!(parents_after);
    if let Some(ct) = &commit_tx {
      // ownership by script: blocks mined while an etching batch waits add coinbases that the snapshot does not have
      row["commitIns"] = json!(ct.input.iter().map(|i| {
        let owned = self.tx_of(i.previous_output.txid).and_then(|t| t.output.get(i.previous_output.vout as usize).map(|o| self.is_wallet_script(&o.script_pubkey))).unwrap_or(false);
        json!({"o": self.label(i.previous_output), "nc": non_cardinal.contains(&i.previous_output) && Some(i.previous_output) != subject, "wallet": owned,
          "subject": Some(i.previous_output) == subject})
      }).collect::<Vec<_>>());
    }
    if let Some(rt) = &reveal_tx {
      row["revealIns"] = json!(rt.input.iter().map(|i| json!({"o": self.label(i.previous_output), "nc": non_cardinal.contains(&i.previous_output),
        "isParent": parent_before.contains(&i.previous_output), "isSatpoint": satpoints.contains(&i.previous_output),
        "isCommit": i.previous_output.txid == commit})).collect::<Vec<_>>());
      row["revealOuts"] = json!(rt.output.iter().map(|o| json!({"v": o.value.to_sat().min(2_000_000_000), "owner": self.owner(&o.script_pubkey)})).collect::<Vec<_>>());
    }
    if etch {
      let rj = &j["rune"];
      let rune: Rune = rune_name.parse().unwrap();
      let entry = self.w.index.rune(rune)?;
      let loc: Option<OutPoint> = rj["location"].as_str().and_then(|s| s.parse().ok());
      let bal = match loc {
        Some(o) => self
          .w
          .index
          .get_rune_balances_for_output(o)?
          .unwrap_or_default()
          .into_iter()
          .find(|(sr, _)| sr.rune == rune)
          .map(|(_, p)| p.amount)
          .unwrap_or(0),
        None => 0,
      };
      let loc_owner = loc.and_then(|o| self.tx_of(o.txid).and_then(|t| t.output.get(o.vout as usize).map(|x| self.owner(&x.script_pubkey)))).unwrap_or("none".into());
      row["rune"] = json!({"reported": !rj.is_null(), "nameOk": rj["rune"].as_str().map(|s| s.replace('•', "")) == Some(rune_name.clone()),
        "exists": entry.is_some(), "premineIdx": entry.as_ref().map(|(_, e, _)| e.premine.min(2_000_000_000)).unwrap_or(0),
        "etchingIsReveal": entry.as_ref().map(|(_, e, _)| e.etching == reveal).unwrap_or(false),
        "hasLocation": loc.is_some(), "locSameTx": loc.map(|o| o.txid == reveal).unwrap_or(false), "locVout": loc.map(|o| o.vout as i64).unwrap_or(-1),
        "balAtReported": bal.min(2_000_000_000), "locOwner": loc_owner, "div": divisibility});
    }
    self.rows.push(row);
    Ok(())
  }
}

/// ordv wallet-batch --seed N --worlds W --ops K --out trace.ndjson
pub fn batch_trace(seed: u64, worlds: usize, ops: usize, out: &str) -> Result<()> {
  let mut all = Vec::new();
  for wi in 0..worlds {
    let s = seed.wrapping_mul(1000).wrapping_add(wi as u64);
    let mut c = Ctx::new(s, &format!("seed={seed} world={wi}"))?;
    c.w.mine(40)?;
    let premines = c.etch(1, 60)?;
    let p1 = c.inscribe(20_000)?;
    let p2 = c.inscribe(33_000)?;
    let junk = c.inscribe(15_000)?;
    // small cardinals for satpoints mode
    let (cb, v) = c.take_cardinal(BTC)?;
    let mut outs = Vec::new();
    for k in 0..10u64 {
      let a = c.recv_addr();
      outs.push(c.pay(&a, 25_000 + 3_000 * k));
    }
    let a = c.recv_addr();
    outs.push(c.pay(&a, v.to_sat() - 10 * 25_000 - 3_000 * 45 - 3000));
    let stx = c.raw(vec![(cb, Witness::new())], outs);
    c.w.mine(1)?;
    c.distribute(premines, 60, 2, None)?;
    c.w.sync()?;
    let junk_id = c.w.index.get_inscriptions_for_output(junk)?.unwrap_or_default()[0];
    let mut bs = BatchState { parents: Vec::new(), labels: BTreeMap::new(), small: (0..10).map(|k| OutPoint { txid: stx, vout: k }).collect(), rune_no: 0, junk: junk_id };
    bs.labels.insert(junk_id, "J".into());
    for (l, o) in [("P1", p1), ("P2", p2)] {
      let id = c.w.index.get_inscriptions_for_output(o)?.unwrap_or_default()[0];
      bs.parents.push((l.to_string(), id));
      bs.labels.insert(id, l.to_string());
    }
    for n in 0..ops {
      c.batch_op(&mut bs, n)?;
    }
    c.w.handle.shutdown();
    all.append(&mut c.rows);
  }
  crate::write_trace(out, &all)
}
