//! Seeded random scenario generators (input production only; no oracle logic).

use {
  crate::scenario::*,
  rand::{Rng, SeedableRng, rngs::StdRng, seq::SliceRandom},
};

#[derive(Clone)]
struct Utxo {
  label: String,
  v: u64,
  t: String,
  h: usize,
}

#[derive(Clone)]
pub struct GenCfg {
  pub blocks: usize,
  pub max_txs: usize,
  pub inscriptions: bool,
  pub runes: bool,
  pub update_every: usize,
  pub reopen: bool,
  pub dup_coinbase: bool,
  pub junk: bool,
}

#[derive(Clone)]
struct G {
  rng: StdRng,
  values: std::collections::BTreeMap<String, u64>,
  utxos: Vec<Utxo>,
  next_tx: usize,
  next_env: usize,
  next_block: usize,
  env_labels: Vec<String>,
  /// (etching tx label, has terms)
  runes: Vec<(String, bool)>,
  names: Vec<String>,
  /// outputs that (may) hold rune balances
  runic: Vec<String>,
  height: usize,
  tag: String,
  /// outputs whose first sat carries an inscription revealed by a first envelope without pointer;
  /// the flag says whether that envelope was of a cursed shape
  first_sat_inscribed: std::collections::BTreeMap<String, bool>,
}

fn name_from(n: usize, len: usize) -> String {
  let mut s = String::new();
  let mut k = n;
  for _ in 0..len {
    s.push((b'A' + (k % 26) as u8) as char);
    k /= 26;
  }
  s.chars().rev().collect()
}

impl G {
  fn pick_value_split(&mut self, total: u64, n: usize) -> Vec<u64> {
    // split `total` into n values (zeros allowed) plus an implicit remainder (fee)
    let mut vals = Vec::new();
    let mut rest = total;
    for _ in 0..n {
      let v = match self.rng.gen_range(0..10) {
        0 => 0,
        1 => rest,
        2 => rest.min(1),
        3 => rest / 2,
        _ => {
          if rest == 0 {
            0
          } else {
            self.rng.gen_range(0..=rest)
          }
        }
      };
      vals.push(v);
      rest -= v;
    }
    vals
  }

  fn out_type(&mut self) -> (String, u32) {
    match self.rng.gen_range(0..12) {
      0 => ("opret".into(), self.rng.gen_range(0..3)),
      1 => ("empty".into(), 0),
      2..=5 => ("wpkh".into(), self.rng.gen_range(0..4)),
      _ => ("tr".into(), self.rng.gen_range(0..4)),
    }
  }

  fn gen_tx(&mut self, cfg: &GenCfg) -> Option<TxSpec> {
    if self.utxos.is_empty() {
      return None;
    }
    let label = format!("{}t{}", self.tag, self.next_tx);
    self.next_tx += 1;
    let n_in = self.rng.gen_range(1..=3.min(self.utxos.len()));
    let mut ins = Vec::new();
    // reinscription: spend an output whose first sat already carries an inscription as the first input and reveal a
    // clean envelope on it (over a cursed first inscription this one is blessed before the jubilee, else cursed)
    let mut reinscribe = false;
    if cfg.inscriptions && self.rng.gen_bool(0.2) {
      if let Some(pos) = self.utxos.iter().position(|u| u.v > 0 && self.first_sat_inscribed.contains_key(&u.label)) {
        ins.push(self.utxos.remove(pos));
        reinscribe = true;
      }
    }
    for _ in ins.len()..n_in {
      if self.utxos.is_empty() {
        break;
      }
      // prefer recent outputs (same-block spends) half of the time
      let i = if self.rng.gen_bool(0.5) {
        let lo = self.utxos.len().saturating_sub(4);
        self.rng.gen_range(lo..self.utxos.len())
      } else {
        self.rng.gen_range(0..self.utxos.len())
      };
      ins.push(self.utxos.remove(i));
      if self.utxos.is_empty() {
        break;
      }
    }
    let total: u64 = ins.iter().map(|u| u.v).sum();
    let n_out = self.rng.gen_range(0..=4);
    let n_out = if n_out == 0 && self.rng.gen_bool(0.7) { 1 } else { n_out };
    let mut vals = self.pick_value_split(total, n_out);
    if self.rng.gen_bool(0.4) && !vals.is_empty() {
      // fee-free: give the remainder to the last output
      let used: u64 = vals.iter().sum();
      *vals.last_mut().unwrap() += total - used;
    }
    let mut outs = Vec::new();
    for v in &vals {
      let (t, s) = self.out_type();
      outs.push(OutSpec { v: *v, t, s });
    }
    let total_out: u64 = vals.iter().sum();

    let mut tx = TxSpec {
      label: label.clone(),
      ins: ins.iter().map(|u| u.label.clone()).collect(),
      outs,
      ..Default::default()
    };

    if cfg.inscriptions && (reinscribe || self.rng.gen_bool(0.55)) {
      let n_env = self.rng.gen_range(1..=3);
      let mut envs = Vec::new();
      for _ in 0..n_env {
        let input = if self.rng.gen_bool(0.6) {
          0
        } else {
          self.rng.gen_range(0..ins.len())
        };
        let l = format!("{}e{}", self.tag, self.next_env);
        self.next_env += 1;
        let mut e = EnvSpec {
          label: l.clone(),
          input,
          ..Default::default()
        };
        if self.rng.gen_bool(0.3) {
          e.pointer = Some(match self.rng.gen_range(0..5) {
            0 => 0,
            1 => total_out,
            2 => total_out + 1,
            _ => self.rng.gen_range(0..=total_out.max(1)),
          });
        }
        e.even = self.rng.gen_bool(0.07);
        e.dup = self.rng.gen_bool(0.07);
        e.incomplete = self.rng.gen_bool(0.05);
        // cursed shapes are common enough that later reinscriptions often sit on a cursed first inscription
        e.pushnum = self.rng.gen_bool(0.15);
        e.stutter = self.rng.gen_bool(0.15);
        e.hidden = self.rng.gen_bool(0.3);
        if self.rng.gen_bool(0.35) {
          let n_par = self.rng.gen_range(1..=3);
          for _ in 0..n_par {
            let p = match self.rng.gen_range(0..6) {
              0 => "zz-unknown".to_string(),
              1 => l.clone(),
              2 => envs
                .last()
                .map(|x: &EnvSpec| x.label.clone())
                .unwrap_or("zz-unknown".into()),
              _ => self
                .env_labels
                .choose(&mut self.rng)
                .cloned()
                .unwrap_or("zz-unknown".into()),
            };
            e.parents.push(p);
          }
        }
        if self.rng.gen_bool(0.1) {
          e.delegate = self.env_labels.choose(&mut self.rng).cloned();
        }
        envs.push(e);
      }
      // several new inscriptions on one sat of this transaction: an earlier envelope points at a sat on which a
      // later envelope lands too (by its own pointer, or because the sat is the first one of its input)
      if envs.len() >= 2 && total_out > 0 && self.rng.gen_bool(0.3) {
        let starts: Vec<u64> = (0..ins.len()).map(|k| ins[..k].iter().map(|u| u.v).sum()).collect();
        let k = self.rng.gen_range(0..ins.len());
        let (target, by_input) = if k > 0 && starts[k] < total_out && self.rng.gen_bool(0.6) {
          (starts[k], true)
        } else {
          (self.rng.gen_range(0..total_out), false)
        };
        envs[0].input = 0;
        envs[0].pointer = Some(target);
        if by_input {
          envs[1].input = k;
          envs[1].pointer = None;
        } else {
          envs[1].pointer = Some(target);
        }
      }
      envs.sort_by_key(|e| e.input);
      if reinscribe {
        // exactly one envelope: first input, no pointer, no flaw (so the only question is what already sits on the sat)
        let l = envs[0].label.clone();
        envs = vec![EnvSpec { label: l, input: 0, ..Default::default() }];
      }
      for e in &envs {
        self.env_labels.push(e.label.clone());
      }
      // where the first envelope's inscription sits afterwards, if that is easy to tell
      if let Some(e) = envs.first() {
        if envs.len() == 1 && !ins.iter().any(|u| self.first_sat_inscribed.contains_key(&u.label))
          && e.input == 0 && e.pointer.is_none() && !e.even && ins[0].v > 0 && tx.outs.first().is_some_and(|o| o.v > 0 && o.t != "opret" && o.t != "stone") {
          let cursed_shape = e.dup || e.incomplete || e.pushnum || e.stutter;
          self.first_sat_inscribed.insert(format!("{label}:0"), cursed_shape);
        }
      }
      tx.envs = envs;
    }

    if cfg.runes && self.rng.gen_bool(0.5) && !tx.outs.is_empty() {
      let mut stone = StoneSpec::default();
      let n_out = tx.outs.len() as u32;
      // make sure there is a carrier output
      let at = self.rng.gen_range(0..tx.outs.len());
      tx.outs[at].t = "stone".into();
      match self.rng.gen_range(0..10) {
        0..=3 => {
          // etching
          let mut e = EtchSpec::default();
          let class = self.rng.gen_range(0..10);
          let name = match class {
            0 => None,
            1 => Some(name_from(self.next_tx * 7 + 3, 3)),   // below minimum
            2 => Some(name_from(self.next_tx * 7 + 3, 27)),  // reserved
            3 if !self.names.is_empty() => self.names.choose(&mut self.rng).cloned(), // duplicate
            _ => Some(name_from(self.next_tx * 131 + 17, 13 + self.rng.gen_range(0..3))),
          };
          if let Some(n) = &name {
            // commitment: usually present on a taproot input, sometimes missing / wrong input type
            if self.rng.gen_bool(0.85) {
              let mut cands: Vec<usize> = (0..ins.len()).collect();
              cands.shuffle(&mut self.rng);
              // prefer a mature taproot input when one exists
              let pick = cands
                .iter()
                .copied()
                .find(|i| ins[*i].t == "tr" && self.height + 1 >= ins[*i].h + 6 && self.rng.gen_bool(0.8))
                .unwrap_or(cands[0]);
              tx.commits.push(CommitSpec {
                input: pick,
                name: n.clone(),
              });
            }
            self.names.push(n.clone());
          }
          e.name = name;
          if self.rng.gen_bool(0.6) {
            e.premine = Some(self.rng.gen_range(0..6));
          }
          let mut has_terms = false;
          if self.rng.gen_bool(0.6) {
            has_terms = true;
            let h = self.height as u64 + 1;
            let mut t = TermsSpec::default();
            if self.rng.gen_bool(0.8) {
              t.cap = Some(self.rng.gen_range(0..4));
            }
            if self.rng.gen_bool(0.8) {
              t.amount = Some(self.rng.gen_range(0..4));
            }
            if self.rng.gen_bool(0.4) {
              t.hs = Some(h + self.rng.gen_range(0..4));
            }
            if self.rng.gen_bool(0.4) {
              t.he = Some(h + self.rng.gen_range(0..8));
            }
            if self.rng.gen_bool(0.4) {
              t.os = Some(self.rng.gen_range(0..4));
            }
            if self.rng.gen_bool(0.4) {
              t.oe = Some(self.rng.gen_range(0..8));
            }
            // values at the top of the u64 range (written as HUGE, sent as u64::MAX): a relative
            // bound that overflows saturates, so such a start never opens and such an end never closes
            for f in [&mut t.hs, &mut t.he, &mut t.os, &mut t.oe] {
              if f.is_some() && self.rng.gen_bool(0.15) {
                *f = Some(crate::scenario::HUGE);
              }
            }
            e.terms = Some(t);
          }
          stone.etching = Some(e);
          self.runes.push((label.clone(), has_terms));
          if self.rng.gen_bool(0.5) {
            stone.edicts.push(EdictSpec {
              rune: "self".into(),
              amount: self.rng.gen_range(0..4),
              output: self.rng.gen_range(0..=n_out),
            });
          }
        }
        4..=6 => {
          // mint
          if let Some((r, _)) = self.runes.choose(&mut self.rng).cloned() {
            stone.mint = Some(r);
          } else {
            stone.mint = Some("none".into());
          }
        }
        _ => {}
      }
      // transfers
      if self.rng.gen_bool(0.6) {
        let n_ed = self.rng.gen_range(1..=3);
        for _ in 0..n_ed {
          let rune = match self.rng.gen_range(0..8) {
            0 => "none".to_string(),
            1 => "self".to_string(),
            _ => self
              .runes
              .choose(&mut self.rng)
              .map(|r| r.0.clone())
              .unwrap_or("none".into()),
          };
          stone.edicts.push(EdictSpec {
            rune,
            amount: self.rng.gen_range(0..5),
            output: self.rng.gen_range(0..=n_out),
          });
        }
      }
      if self.rng.gen_bool(0.3) {
        stone.pointer = Some(self.rng.gen_range(0..n_out));
      }
      if self.rng.gen_bool(0.15) {
        let flaws = [
          "evenTag", "flag", "trailing", "truncated", "edictOutput", "edictRuneId", "opcode",
          "varint", "supply",
        ];
        stone.flaw = Some(flaws.choose(&mut self.rng).unwrap().to_string());
      }
      tx.stone = Some(stone);
    } else if cfg.runes && self.rng.gen_bool(0.3) {
      // no stone: runes in the inputs go to the first non-OP_RETURN output
    }

    if cfg.junk && self.rng.gen_bool(0.2) {
      tx.junk = Some(if self.rng.gen_bool(0.5) { "noise" } else { "keypath" }.to_string());
    }

    for (i, o) in tx.outs.iter().enumerate() {
      self.utxos.push(Utxo {
        label: format!("{label}:{i}"),
        v: o.v,
        t: o.t.clone(),
        h: self.height + 1,
      });
      if o.t != "opret" && o.t != "stone" {
        self.runic.push(format!("{label}:{i}"));
      }
    }
    // OP_RETURN outputs are provably unspendable in practice but ord tracks them like any output;
    // keep them spendable so that the ledger is exercised, except the stone carrier
    self.utxos.retain(|u| u.t != "stone" && u.t != "opret");
    Some(tx)
  }

  fn gen_block(&mut self, cfg: &GenCfg) -> BlockSpec {
    let id = format!("{}b{}", self.tag, self.next_block);
    self.next_block += 1;
    let n_tx = if cfg.max_txs == 0 {
      0
    } else {
      self.rng.gen_range(0..=cfg.max_txs)
    };
    let mut txs = Vec::new();
    let mut fees = 0u64;
    for _ in 0..n_tx {
      let before: u64 = 0;
      let _ = before;
      if let Some(tx) = self.gen_tx(cfg) {
        // fee = inputs - outputs: recompute from labels is not possible here, so track in gen_tx
        txs.push(tx);
      }
    }
    // compute fees from the specs
    let _ = &mut fees;
    BlockSpec {
      id,
      txs,
      cb: Vec::new(),
      ..Default::default()
    }
  }
}

impl G {
  fn new(seed: u64, tag: &str) -> Self {
    G {
      rng: StdRng::seed_from_u64(seed),
      values: Default::default(),
      utxos: Vec::new(),
      next_tx: 0,
      next_env: 0,
      next_block: 0,
      env_labels: Vec::new(),
      runes: Vec::new(),
      names: Vec::new(),
      runic: Vec::new(),
      height: 0,
      tag: tag.to_string(),
      first_sat_inscribed: Default::default(),
    }
  }

  /// one complete block (transactions and coinbase) on top of the current tip
  fn next_block(&mut self, cfg: &GenCfg) -> BlockSpec {
    let mut block = self.gen_block(cfg);
    let mut fees = 0u64;
    for t in &block.txs {
      let tin: u64 = t.ins.iter().map(|l| self.values[l]).sum();
      let tout: u64 = t.outs.iter().map(|o| o.v).sum();
      fees += tin - tout;
      for (i, o) in t.outs.iter().enumerate() {
        self.values.insert(format!("{}:{i}", t.label), o.v);
      }
    }
    let reward = SUBSIDY_UNITS + fees;
    let n_cb = self.rng.gen_range(1..=3);
    let mut vals = self.pick_value_split(reward, n_cb);
    if self.rng.gen_bool(0.6) {
      let used: u64 = vals.iter().sum();
      *vals.last_mut().unwrap() += reward - used;
    }
    let cbl = format!("c{}", block.id);
    for (i, v) in vals.iter().enumerate() {
      let (t, s) = self.out_type();
      block.cb.push(OutSpec { v: *v, t: t.clone(), s });
      self.values.insert(format!("{cbl}:{i}"), *v);
      if t != "opret" {
        self.utxos.push(Utxo {
          label: format!("{cbl}:{i}"),
          v: *v,
          t,
          h: self.height + 1,
        });
      }
    }
    self.height += 1;
    block
  }
}

impl G {
  /// a rune-centred transaction: spends outputs that hold runes, several outputs, dense edicts
  fn gen_rune_tx(&mut self) -> Option<TxSpec> {
    // candidates: outputs that may hold runes and are still unspent
    let cands: Vec<usize> = (0..self.utxos.len())
      .filter(|i| self.runic.contains(&self.utxos[*i].label))
      .collect();
    if cands.is_empty() {
      return None;
    }
    let label = format!("{}t{}", self.tag, self.next_tx);
    self.next_tx += 1;
    let n_in = self.rng.gen_range(1..=3.min(cands.len()));
    let mut picked: Vec<usize> = cands.choose_multiple(&mut self.rng, n_in).copied().collect();
    picked.sort_unstable_by(|a, b| b.cmp(a));
    let mut ins = Vec::new();
    for i in picked {
      ins.push(self.utxos.remove(i));
    }
    let total: u64 = ins.iter().map(|u| u.v).sum();
    let n_out = self.rng.gen_range(2..=5);
    let mut outs = Vec::new();
    let stone_at = match self.rng.gen_range(0..3) {
      0 => 0,
      1 => n_out - 1,
      _ => self.rng.gen_range(0..n_out),
    };
    let share = total / (n_out as u64);
    for i in 0..n_out {
      let (t, s) = if i == stone_at {
        ("stone".to_string(), 0)
      } else if self.rng.gen_bool(0.12) {
        ("opret".to_string(), self.rng.gen_range(0..3))
      } else {
        ("tr".to_string(), self.rng.gen_range(0..4))
      };
      let v = if t == "stone" || t == "opret" { 0 } else { share };
      outs.push(OutSpec { v, t, s });
    }
    let mut stone = StoneSpec::default();
    let n_ed = self.rng.gen_range(0..=4);
    for _ in 0..n_ed {
      let rune = if self.rng.gen_bool(0.08) {
        "none".to_string()
      } else {
        self.runes.choose(&mut self.rng).map(|r| r.0.clone()).unwrap_or("none".into())
      };
      let amount = match self.rng.gen_range(0..6) {
        0 | 1 => 0,
        2 => 1,
        _ => self.rng.gen_range(1..9),
      };
      let output = if self.rng.gen_bool(0.4) {
        n_out as u32
      } else {
        self.rng.gen_range(0..n_out as u32)
      };
      stone.edicts.push(EdictSpec { rune, amount, output });
    }
    if self.rng.gen_bool(0.35) {
      stone.pointer = Some(self.rng.gen_range(0..n_out as u32));
    }
    if self.rng.gen_bool(0.3) {
      let with_terms: Vec<String> = self.runes.iter().filter(|r| r.1).map(|r| r.0.clone()).collect();
      stone.mint = with_terms.choose(&mut self.rng).cloned();
    }
    if self.rng.gen_bool(0.06) {
      let flaws = ["evenTag", "flag", "trailing", "edictOutput", "opcode", "varint"];
      stone.flaw = Some(flaws.choose(&mut self.rng).unwrap().to_string());
    }
    let mut tx = TxSpec {
      label: label.clone(),
      ins: ins.iter().map(|u| u.label.clone()).collect(),
      outs,
      ..Default::default()
    };
    if self.rng.gen_bool(0.9) {
      tx.stone = Some(stone);
    } else {
      // no runestone at all: the carrier becomes a plain OP_RETURN
      tx.outs[stone_at].t = "opret".into();
    }
    for (i, o) in tx.outs.iter().enumerate() {
      if o.t != "opret" && o.t != "stone" {
        self.utxos.push(Utxo {
          label: format!("{label}:{i}"),
          v: o.v,
          t: o.t.clone(),
          h: self.height + 1,
        });
        self.runic.push(format!("{label}:{i}"));
      }
    }
    Some(tx)
  }

  /// an etching with a valid commitment when a mature taproot output exists
  fn gen_etch_tx(&mut self) -> Option<TxSpec> {
    let h = self.height + 1;
    let pos = self.utxos.iter().position(|u| u.t == "tr" && h >= u.h + 5 && u.v > 0 && !self.runic.contains(&u.label))?;
    let input = self.utxos.remove(pos);
    let label = format!("{}t{}", self.tag, self.next_tx);
    self.next_tx += 1;
    let name = name_from(self.next_tx * 977 + 31, 14);
    let n_out = self.rng.gen_range(2..=4);
    let mut outs = Vec::new();
    for i in 0..n_out {
      if i == 0 {
        outs.push(OutSpec { v: 0, t: "stone".into(), s: 0 });
      } else {
        outs.push(OutSpec { v: input.v / (n_out as u64), t: "tr".into(), s: self.rng.gen_range(0..4) });
      }
    }
    let mut terms = None;
    let has_terms = self.rng.gen_bool(0.7);
    if has_terms {
      terms = Some(TermsSpec {
        cap: Some(self.rng.gen_range(1..6)),
        amount: Some(self.rng.gen_range(1..12)),
        hs: match self.rng.gen_range(0..12) {
          0..=2 => Some(h as u64 + self.rng.gen_range(0..5)),
          3 => Some(HUGE),
          _ => None,
        },
        he: match self.rng.gen_range(0..12) {
          0..=3 => Some(h as u64 + self.rng.gen_range(2..10)),
          4 => Some(HUGE),
          _ => None,
        },
        // HUGE stands for u64::MAX: block + offset saturates, so such a start never opens
        os: match self.rng.gen_range(0..12) {
          0..=3 => Some(self.rng.gen_range(0..3)),
          4 => Some(HUGE),
          _ => None,
        },
        oe: match self.rng.gen_range(0..12) {
          0..=2 => Some(self.rng.gen_range(1..8)),
          3 => Some(HUGE),
          _ => None,
        },
      });
    }
    let stone = StoneSpec {
      etching: Some(EtchSpec {
        name: Some(name.clone()),
        premine: Some(self.rng.gen_range(5..60)),
        terms,
      }),
      edicts: if self.rng.gen_bool(0.5) {
        vec![EdictSpec { rune: "self".into(), amount: 0, output: n_out as u32 }]
      } else {
        Vec::new()
      },
      ..Default::default()
    };
    self.names.push(name.clone());
    self.runes.push((label.clone(), has_terms));
    // sometimes a second committing input that is still immature, before or after the mature one
    // (some input with a mature commitment is enough, wherever it stands)
    let mut ins = vec![input.label.clone()];
    let mut commits = vec![CommitSpec { input: 0, name: name.clone() }];
    if self.rng.gen_bool(0.35) {
      if let Some(p2) = self.utxos.iter().position(|u| u.t == "tr" && h < u.h + 5 && u.v > 0 && !self.runic.contains(&u.label)) {
        let young = self.utxos.remove(p2);
        if let Some(o) = outs.get_mut(1) {
          o.v += young.v;
        }
        if self.rng.gen_bool(0.6) {
          ins.insert(0, young.label.clone());
          commits = vec![CommitSpec { input: 0, name: name.clone() }, CommitSpec { input: 1, name: name.clone() }];
        } else {
          ins.push(young.label.clone());
          commits.push(CommitSpec { input: 1, name: name.clone() });
        }
      }
    }
    let tx = TxSpec {
      label: label.clone(),
      ins,
      outs,
      stone: Some(stone),
      commits,
      ..Default::default()
    };
    for (i, o) in tx.outs.iter().enumerate() {
      if o.t == "tr" {
        self.utxos.push(Utxo { label: format!("{label}:{i}"), v: o.v, t: o.t.clone(), h });
        self.runic.push(format!("{label}:{i}"));
      }
    }
    Some(tx)
  }
}

/// C15 fetch path: a signet chain whose first 112,402 blocks are below the first inscription height
/// (indexed as headers only, so spending their outputs makes ord fetch the values from the node),
/// followed by ledger-family blocks that spend the last `keep` of those coinbases.
pub fn signet_fetch(seed: u64, tag: &str, blocks: usize, flags: &[&str]) -> Scenario {
  let cfg = GenCfg { blocks, max_txs: 4, inscriptions: true, runes: true, update_every: 3, reopen: false, dup_coinbase: false, junk: false };
  let mut g = G::new(seed, tag);
  let n = 112_402usize;
  let keep = 30usize;
  let prefix = format!("{tag}k");
  for i in (n - keep)..n {
    let label = format!("c{prefix}{i}:0");
    g.values.insert(label.clone(), SUBSIDY_UNITS);
    g.utxos.push(Utxo { label, v: SUBSIDY_UNITS, t: "tr".into(), h: i + 1 });
  }
  g.height = n;
  let mut steps = vec![Step::Skip { prefix, n, keep }];
  for b in 0..blocks {
    let block = g.next_block(&cfg);
    steps.push(Step::Block(block));
    if (b + 1) % 3 == 0 {
      steps.push(Step::Update);
    }
  }
  steps.push(Step::Update);
  Scenario {
    name: format!("{tag}-signet-seed{seed}"),
    chain: "signet".into(),
    flags: flags.iter().map(|s| s.to_string()).collect(),
    commit_interval: None,
    savepoint_interval: None,
    max_savepoints: None,
    steps,
  }
}

/// Provenance-centred scenario (C07): parents at known locations, children whose parent tags follow
/// repetition / absence patterns over parents that are and are not spent by the reveal.
pub fn provenance(seed: u64, tag: &str, blocks: usize, flags: &[&str]) -> Scenario {
  let mut rng = StdRng::seed_from_u64(seed);
  let mut steps = Vec::new();
  let mut free: Vec<String> = Vec::new(); // unspent plain coinbase outputs
  let mut held: Vec<(String, String)> = Vec::new(); // (inscription label, output holding it at offset 0)
  let mut next_tx = 0;
  let mut next_env = 0;
  let cb = |i: usize| vec![OutSpec { v: SUBSIDY_UNITS, t: "tr".into(), s: (i % 4) as u32 }];
  for b in 0..blocks {
    let id = format!("{tag}b{b}");
    let mut txs = Vec::new();
    if b >= 3 {
      for _ in 0..rng.gen_range(1..=3) {
        if free.is_empty() {
          break;
        }
        let own = free.remove(0);
        let label = format!("{tag}t{next_tx}");
        next_tx += 1;
        let env_label = format!("{tag}e{next_env}");
        next_env += 1;
        // spend up to three parents
        let mut spent: Vec<(String, String)> = Vec::new();
        let k = if held.is_empty() { 0 } else { rng.gen_range(0..=3.min(held.len())) };
        for _ in 0..k {
          let i = rng.gen_range(0..held.len());
          spent.push(held.remove(i));
        }
        let unspent_parent = held.choose(&mut rng).map(|h| h.0.clone());
        let names: Vec<String> = spent.iter().map(|s| s.0.clone()).collect();
        let mut parents: Vec<String> = Vec::new();
        let pat = rng.gen_range(0..9);
        let pick = |i: usize| names.get(i % names.len().max(1)).cloned().unwrap_or("zz-unknown".into());
        match pat {
          0 => {}
          1 => parents = vec![pick(0)],
          2 => parents = vec![pick(0), pick(1), pick(0)],
          3 => parents = vec![pick(0), pick(0), pick(1)],
          4 => parents = vec![pick(1), pick(0), pick(1), pick(0), pick(2)],
          5 => parents = vec!["zz-unknown".into(), pick(0), "zz-unknown".into(), pick(0)],
          6 => parents = vec![unspent_parent.clone().unwrap_or("zz-unknown".into()), pick(0)],
          7 => parents = vec![env_label.clone(), pick(0), pick(1)],
          _ => parents = vec![pick(2), pick(1), pick(0)],
        }
        let mut ins = vec![own.clone()];
        ins.extend(spent.iter().map(|s| s.1.clone()));
        let outs: Vec<OutSpec> = (0..ins.len()).map(|i| OutSpec { v: SUBSIDY_UNITS, t: "tr".into(), s: (i % 3) as u32 }).collect();
        let env = EnvSpec { label: env_label.clone(), input: 0, parents, hidden: rng.gen_bool(0.3), ..Default::default() };
        txs.push(TxSpec { label: label.clone(), ins, outs, envs: vec![env], ..Default::default() });
        held.push((env_label, format!("{label}:0")));
        for (i, sp) in spent.into_iter().enumerate() {
          held.push((sp.0, format!("{label}:{}", i + 1)));
        }
      }
    }
    steps.push(Step::Block(BlockSpec { id: id.clone(), txs, cb: cb(b), ..Default::default() }));
    free.push(format!("c{id}:0"));
    if (b + 1) % 4 == 0 {
      steps.push(Step::Update);
    }
  }
  steps.push(Step::Update);
  Scenario { name: format!("{tag}-prov-seed{seed}"), chain: "regtest".into(), flags: flags.iter().map(|s| s.to_string()).collect(),
    commit_interval: None, savepoint_interval: None, max_savepoints: None, steps }
}

/// Rune-dense scenario: mature taproot outputs, a few valid etchings, then many transfers.
pub fn runes(seed: u64, tag: &str, blocks: usize, flags: &[&str], chain: &str) -> Scenario {
  let mut g = G::new(seed, tag);
  let plain = GenCfg { blocks: 0, max_txs: 0, inscriptions: false, runes: false, update_every: 0, reopen: false, dup_coinbase: false, junk: false };
  let mut steps = Vec::new();
  for b in 0..blocks {
    // build the transactions first, then let next_block add the coinbase
    let mut txs = Vec::new();
    if b >= 6 {
      if g.runes.len() < 3 && g.rng.gen_bool(0.6) {
        if let Some(t) = g.gen_etch_tx() {
          txs.push(t);
        }
      }
      for _ in 0..g.rng.gen_range(0..=3) {
        if let Some(t) = g.gen_rune_tx() {
          txs.push(t);
        }
      }
    }
    let mut block = g.next_block(&plain);
    // next_block generated no transactions (max_txs = 0); splice ours in and fix the coinbase value
    let mut fees = 0u64;
    for t in &txs {
      let tin: u64 = t.ins.iter().map(|l| g.values[l]).sum();
      let tout: u64 = t.outs.iter().map(|o| o.v).sum();
      fees += tin - tout;
      for (i, o) in t.outs.iter().enumerate() {
        g.values.insert(format!("{}:{i}", t.label), o.v);
      }
    }
    let n_cb = block.cb.len();
    if let Some(last) = block.cb.last_mut() {
      last.v += fees;
      let l = format!("c{}:{}", block.id, n_cb - 1);
      g.values.insert(l.clone(), last.v);
      let v = last.v;
      for u in g.utxos.iter_mut().filter(|u| u.label == l) {
        u.v = v;
      }
    }
    // coinbase outputs of this family are taproot so that commitments can mature
    for (i, o) in block.cb.iter_mut().enumerate() {
      if o.t != "tr" {
        let l = format!("c{}:{i}", block.id);
        o.t = "tr".into();
        if !g.utxos.iter().any(|u| u.label == l) {
          g.utxos.push(Utxo { label: l.clone(), v: o.v, t: "tr".into(), h: g.height });
        }
        for u in g.utxos.iter_mut().filter(|u| u.label == l) {
          u.t = "tr".into();
        }
      }
    }
    block.txs = txs;
    steps.push(Step::Block(block));
    if (b + 1) % 3 == 0 {
      steps.push(Step::Update);
    }
  }
  steps.push(Step::Update);
  Scenario {
    name: format!("{tag}-runes-seed{seed}"),
    chain: chain.into(),
    flags: flags.iter().map(|s| s.to_string()).collect(),
    commit_interval: None,
    savepoint_interval: None,
    max_savepoints: None,
    steps,
  }
}

/// Generate a ledger-family scenario.
pub fn ledger(seed: u64, tag: &str, cfg: &GenCfg, flags: &[&str], chain: &str) -> Scenario {
  let mut g = G::new(seed, tag);
  let mut steps = Vec::new();
  for b in 0..cfg.blocks {
    let block = g.next_block(cfg);
    steps.push(Step::Block(block));
    if cfg.update_every > 0 && (b + 1) % cfg.update_every == 0 {
      steps.push(Step::Update);
      if cfg.reopen && g.rng.gen_bool(0.2) {
        steps.push(Step::Reopen);
      }
    }
  }
  steps.push(Step::Update);
  let commit_interval = match g.rng.gen_range(0..5) {
    0 => Some(1),
    1 => Some(2),
    2 => Some(3),
    3 => Some(5),
    _ => None,
  };
  Scenario {
    name: format!("{tag}-seed{seed}"),
    chain: chain.into(),
    flags: flags.iter().map(|s| s.to_string()).collect(),
    commit_interval,
    savepoint_interval: None,
    max_savepoints: None,
    steps,
  }
}

/// C01/C02 duplicate txids: a ledger-family chain in which some blocks carry a coinbase that is byte-identical
/// to the coinbase of an earlier, fee-free block (so it has the same txid, as in mainnet blocks 91842 and 91880):
/// the new outputs displace the old ones, destroying the sats in those that were still unspent.
pub fn duplicates(seed: u64, tag: &str, blocks: usize, flags: &[&str]) -> Scenario {
  let cfg = GenCfg { blocks, max_txs: 3, inscriptions: false, runes: false, update_every: 2, reopen: false, dup_coinbase: true, junk: false };
  let mut g = G::new(seed, tag);
  let mut steps = Vec::new();
  // (block id, coinbase outputs) of blocks without transactions: their coinbases hold subsidy sats only
  let mut plain: Vec<(String, Vec<OutSpec>)> = Vec::new();
  for b in 0..blocks {
    if b >= 3 && !plain.is_empty() && g.rng.gen_bool(0.3) {
      let (x, cb) = plain[g.rng.gen_range(0..plain.len())].clone();
      // transactions as usual, then the old coinbase again
      let mut block = g.gen_block(&cfg);
      for t in &block.txs {
        for (i, o) in t.outs.iter().enumerate() {
          g.values.insert(format!("{}:{i}", t.label), o.v);
        }
      }
      // the re-created outputs are never spent afterwards: ord keeps the stale committed entry of a displaced output
      // when its replacement is created and spent within one commit batch (recorded finding
      // C01-duplicate-output-resurrected, scenarios-known/c01-duplicate-spent-in-batch.ndjson)
      let cbl = format!("c{x}");
      g.utxos.retain(|u| !u.label.starts_with(&format!("{cbl}:")));
      block.cb = cb;
      block.dup = Some(x);
      g.height += 1;
      steps.push(Step::Block(block));
    } else {
      let empty = g.rng.gen_bool(0.5);
      let block = if empty {
        let c = GenCfg { max_txs: 0, ..cfg.clone() };
        g.next_block(&c)
      } else {
        g.next_block(&cfg)
      };
      if block.txs.is_empty() {
        plain.push((block.id.clone(), block.cb.clone()));
      }
      steps.push(Step::Block(block));
    }
    if (b + 1) % 2 == 0 {
      steps.push(Step::Update);
    }
  }
  steps.push(Step::Update);
  Scenario {
    name: format!("{tag}-dup-seed{seed}"),
    chain: "regtest".into(),
    flags: flags.iter().map(|s| s.to_string()).collect(),
    commit_interval: None,
    savepoint_interval: None,
    max_savepoints: None,
    steps,
  }
}

/// Protocol-family chain generator: a chain with forks; `snap[h]` is the generator state at height h.
pub struct ChainGen {
  g: G,
  snap: Vec<G>,
  cfg: GenCfg,
}

impl ChainGen {
  pub fn new(seed: u64, tag: &str, cfg: GenCfg) -> Self {
    let g = G::new(seed, tag);
    Self {
      snap: vec![g.clone()],
      g,
      cfg,
    }
  }

  pub fn height(&self) -> usize {
    self.snap.len() - 1
  }

  pub fn mine(&mut self, steps: &mut Vec<Step>, n: usize) {
    for _ in 0..n {
      let b = self.g.next_block(&self.cfg);
      self.snap.push(self.g.clone());
      steps.push(Step::Block(b));
    }
  }

  /// replace the last d blocks by `new` fresh ones
  pub fn fork(&mut self, steps: &mut Vec<Step>, d: usize, new: usize) {
    let keep = self.snap.len() - 1 - d;
    let mut g = self.snap[keep].clone();
    // labels must stay globally unique: continue the counters of the abandoned branch
    g.next_tx = self.g.next_tx;
    g.next_env = self.g.next_env;
    g.next_block = self.g.next_block;
    // fresh randomness so that the new branch differs
    g.rng = StdRng::seed_from_u64(self.g.rng.r#gen());
    self.snap.truncate(keep + 1);
    self.g = g;
    steps.push(Step::Pop { n: d });
    self.mine(steps, new);
  }

  pub fn rng(&mut self) -> &mut StdRng {
    &mut self.g.rng
  }
}

pub struct ProtoCfg {
  pub ci: usize,
  pub si: usize,
  pub ms: usize,
  pub flags: Vec<String>,
}

fn scenario(name: String, p: &ProtoCfg, steps: Vec<Step>) -> Scenario {
  Scenario {
    name,
    chain: "regtest".into(),
    flags: p.flags.clone(),
    commit_interval: Some(p.ci),
    savepoint_interval: Some(p.si),
    max_savepoints: Some(p.ms),
    steps,
  }
}

/// C12 (and C05): a cursed first inscription, then -- one block later -- a clean reinscription of the same sat, which
/// is blessed before the jubilee because the only earlier inscription on the sat is cursed. `split` decides whether
/// the two blocks are indexed by one update (one commit batch under a large commit interval) or by two.
pub fn reinscribe_cursed_case(tag: &str, p: &ProtoCfg, split: bool, shape: &str) -> Scenario {
  let mut steps = Vec::new();
  let cb = |i: usize| vec![OutSpec { v: SUBSIDY_UNITS, t: "tr".into(), s: (i % 3) as u32 }];
  // twelve blocks first: below the savepoint interval, and whenever a savepoint is due, every block is committed on
  // its own, so the two interesting blocks sit just after a savepoint height
  for i in 0..12 {
    steps.push(Step::Block(BlockSpec { id: format!("{tag}b{i}"), txs: vec![], cb: cb(i), ..Default::default() }));
  }
  steps.push(Step::Update);
  let first = EnvSpec { label: format!("{tag}A"), input: 0, pushnum: shape == "pushnum", stutter: shape == "stutter", dup: shape == "dup", ..Default::default() };
  steps.push(Step::Block(BlockSpec {
    id: format!("{tag}b12"),
    txs: vec![TxSpec { label: format!("{tag}ta"), ins: vec![format!("c{tag}b0:0")], outs: vec![OutSpec { v: SUBSIDY_UNITS, t: "tr".into(), s: 1 }], envs: vec![first], ..Default::default() }],
    cb: cb(12),
    ..Default::default()
  }));
  if split {
    steps.push(Step::Update);
  }
  let second = EnvSpec { label: format!("{tag}B"), input: 0, ..Default::default() };
  steps.push(Step::Block(BlockSpec {
    id: format!("{tag}b13"),
    txs: vec![TxSpec { label: format!("{tag}tb"), ins: vec![format!("{tag}ta:0")], outs: vec![OutSpec { v: SUBSIDY_UNITS, t: "tr".into(), s: 2 }], envs: vec![second], ..Default::default() }],
    cb: cb(13),
    ..Default::default()
  }));
  steps.push(Step::Update);
  steps.push(Step::State);
  steps.push(Step::Fresh { limit: None });
  scenario(format!("{tag}-reinscribe-{shape}-{}-ci{}", if split { "apart" } else { "together" }, p.ci), p, steps)
}

fn light_cfg() -> GenCfg {
  GenCfg {
    blocks: 0,
    max_txs: 2,
    inscriptions: true,
    runes: true,
    update_every: 0,
    reopen: false,
    dup_coinbase: false,
    junk: false,
  }
}

/// C14: index `h` blocks (updating after every `batch` blocks), switch to a branch that replaces the
/// last `d` blocks by `d + 1` new ones, update, compare with a from-scratch index.
pub fn reorg_case(seed: u64, tag: &str, p: &ProtoCfg, h: usize, d: usize, batch: usize) -> Scenario {
  let mut cg = ChainGen::new(seed, tag, light_cfg());
  let mut steps = Vec::new();
  let mut done = 0;
  while done < h {
    let n = batch.min(h - done);
    cg.mine(&mut steps, n);
    done += n;
    steps.push(Step::Update);
  }
  cg.fork(&mut steps, d, d + 1);
  steps.push(Step::Update);
  steps.push(Step::State);
  steps.push(Step::Fresh { limit: None });
  scenario(format!("{tag}-reorg-h{h}-d{d}-b{batch}-seed{seed}"), p, steps)
}

/// C12/C13/C14: a random history of mining, forks, updates, reopens and crashes.
pub fn proto_random(seed: u64, tag: &str, p: &ProtoCfg, ops: usize, crash_points: &[&str], forks: bool) -> Scenario {
  let mut cg = ChainGen::new(seed, tag, light_cfg());
  let mut steps = Vec::new();
  for _ in 0..ops {
    let r: u32 = cg.rng().gen_range(0..100);
    if r < 45 {
      let n = cg.rng().gen_range(1..=4);
      cg.mine(&mut steps, n);
    } else if r < 70 {
      steps.push(Step::Update);
      steps.push(Step::State);
    } else if r < 78 {
      steps.push(Step::Reopen);
    } else if r < 90 && forks && cg.height() >= 2 {
      let maxd = cg.height().min(2 * p.si + 2);
      let d = cg.rng().gen_range(1..=maxd);
      let extra = cg.rng().gen_range(1..=2);
      cg.fork(&mut steps, d, d + extra);
      steps.push(Step::Update);
      steps.push(Step::State);
      steps.push(Step::Fresh { limit: None });
    } else if !crash_points.is_empty() {
      let n = cg.rng().gen_range(1..=5);
      cg.mine(&mut steps, n);
      let point = crash_points.choose(cg.rng()).unwrap().to_string();
      let occ = cg.rng().gen_range(1..=2);
      steps.push(Step::Crash { point, occ });
      steps.push(Step::State);
      steps.push(Step::Update);
      steps.push(Step::State);
    }
  }
  steps.push(Step::Update);
  steps.push(Step::State);
  steps.push(Step::Fresh { limit: None });
  scenario(format!("{tag}-proto-seed{seed}"), p, steps)
}

/// C12: the same chain (same seed, same tag => same block ids) under a given schedule.
pub fn schedule_case(seed: u64, tag: &str, p: &ProtoCfg, blocks: usize, sched: u64, flags_name: &str) -> Scenario {
  let mut cg = ChainGen::new(seed, tag, GenCfg { max_txs: 3, ..light_cfg() });
  let mut chain_steps = Vec::new();
  cg.mine(&mut chain_steps, blocks);
  // the schedule decides where update / reopen calls go; it does not touch the chain generator
  let mut srng = StdRng::seed_from_u64(sched);
  let mut steps = Vec::new();
  for s in chain_steps {
    steps.push(s);
    let r: u32 = srng.gen_range(0..100);
    if r < 35 {
      steps.push(Step::Update);
      if srng.gen_bool(0.3) {
        steps.push(Step::Reopen);
      }
      if srng.gen_bool(0.3) {
        steps.push(Step::State);
      }
    }
  }
  steps.push(Step::Update);
  steps.push(Step::State);
  scenario(format!("{tag}-sched{sched}-ci{}-{flags_name}-seed{seed}", p.ci), p, steps)
}

/// C13: index a few blocks, then die at `point` (its `occ`-th visit) while indexing more
/// (after a fork when `fork_depth` > 0), reopen, compare with a from-scratch index of the same
/// prefix, continue to the tip and compare again.
pub fn crash_case(seed: u64, tag: &str, p: &ProtoCfg, point: &str, occ: u64, pre: usize, more: usize, fork_depth: usize) -> Scenario {
  let mut cg = ChainGen::new(seed, tag, light_cfg());
  let mut steps = Vec::new();
  cg.mine(&mut steps, pre);
  steps.push(Step::Update);
  if fork_depth > 0 {
    cg.fork(&mut steps, fork_depth, fork_depth + more);
  } else {
    cg.mine(&mut steps, more);
  }
  steps.push(Step::Crash { point: point.to_string(), occ });
  steps.push(Step::Update);
  steps.push(Step::State);
  steps.push(Step::Fresh { limit: None });
  scenario(format!("{tag}-crash-{point}-{occ}-f{fork_depth}-seed{seed}"), p, steps)
}

/// C13: the updating process is killed `ms` milliseconds after it started (no hook involved), `rounds` times in a
/// row while it works through a long backlog with frequent commits; then the index catches up and is compared
/// with a from-scratch index.
pub fn kill_case(seed: u64, tag: &str, p: &ProtoCfg, pre: usize, more: usize, delays: &[u64]) -> Scenario {
  let mut cg = ChainGen::new(seed, tag, light_cfg());
  let mut steps = Vec::new();
  cg.mine(&mut steps, pre);
  steps.push(Step::Update);
  cg.mine(&mut steps, more);
  for ms in delays {
    steps.push(Step::Crash { point: "kill".to_string(), occ: *ms });
  }
  steps.push(Step::Update);
  steps.push(Step::State);
  steps.push(Step::Fresh { limit: None });
  scenario(format!("{tag}-kill-p{pre}m{more}-seed{seed}"), p, steps)
}

/// C13: a crashed run and its uninterrupted control over the same history, which continues after the
/// crash with more blocks and a reorg: every update of the crashed run must end like the control's.
pub fn crash_pair(seed: u64, tag: &str, p: &ProtoCfg, point: &str, occ: u64, pre: usize, more: usize, later: usize, depth: usize) -> Vec<Scenario> {
  let mut out = Vec::new();
  for crashed in [false, true] {
    let mut cg = ChainGen::new(seed, tag, light_cfg());
    let mut steps = Vec::new();
    cg.mine(&mut steps, pre);
    steps.push(Step::Update);
    cg.mine(&mut steps, more);
    if crashed {
      steps.push(Step::Crash { point: point.to_string(), occ });
    } else {
      steps.push(Step::Update);
    }
    steps.push(Step::Update);
    steps.push(Step::State);
    cg.mine(&mut steps, later);
    steps.push(Step::Update);
    steps.push(Step::State);
    cg.fork(&mut steps, depth, depth + 1);
    steps.push(Step::Update);
    steps.push(Step::State);
    steps.push(Step::Fresh { limit: None });
    let kind = if crashed { "crash" } else { "control" };
    out.push(scenario(format!("{tag}-pair-{point}-{occ}-p{pre}m{more}l{later}d{depth}-seed{seed}#{kind}"), p, steps));
  }
  out
}
