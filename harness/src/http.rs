//! C19 / C18 driver: serves a replayed index with the real explorer in-process and records
//! responses for every inscription class x content route x request x server configuration.

use {
  crate::{runner::{Opts, Runner}, scenario::*},
  anyhow::{Result, anyhow},
  clap::Parser,
  ord::subcommand::server::Server,
  serde_json::{Value, json},
  std::{io::Write, net::SocketAddr, sync::Arc},
};

fn env(label: &str) -> EnvSpec {
  EnvSpec { label: label.into(), input: 0, ct: Some("png".into()), ..Default::default() }
}

/// the fixed C19 chain: one inscription per class
pub fn content_scenario() -> (Scenario, Vec<(String, Value)>) {
  let mut steps = Vec::new();
  let n_base = 24;
  for i in 0..n_base {
    steps.push(Step::Block(BlockSpec { id: format!("hb{i}"), txs: vec![], cb: vec![OutSpec { v: SUBSIDY_UNITS, t: "tr".into(), s: (i % 4) as u32 }], ..Default::default() }));
  }
  // (label, env, abstract class)
  let mut classes: Vec<(EnvSpec, Value)> = Vec::new();
  let cls = |ct: &str, enc: &str, body: bool, delegate: &str, hidden: bool| json!({"ct": ct, "enc": enc, "body": body, "delegate": delegate, "hiddenCfg": hidden});
  classes.push((env("A"), cls("valid", "none", true, "none", false)));
  classes.push((env("H"), cls("valid", "none", true, "none", true)));
  classes.push((EnvSpec { ct: Some("absent".into()), ..env("F") }, cls("absent", "none", true, "none", false)));
  classes.push((EnvSpec { ct: Some("invalid".into()), ..env("G") }, cls("invalid", "none", true, "none", false)));
  classes.push((EnvSpec { enc: Some("br".into()), ..env("I") }, cls("valid", "br", true, "none", false)));
  classes.push((EnvSpec { enc: Some("gzip".into()), ..env("J") }, cls("valid", "other", true, "none", false)));
  classes.push((EnvSpec { enc: Some("invalid".into()), ..env("K") }, cls("valid", "invalid", true, "none", false)));
  classes.push((EnvSpec { nobody: true, ..env("L") }, cls("valid", "none", false, "none", false)));
  classes.push((EnvSpec { ct: Some("text".into()), ..env("T") }, cls("valid", "none", true, "none", false)));
  classes.push((EnvSpec { ct: Some("html".into()), ..env("W") }, cls("valid", "none", true, "none", false)));
  let first: Vec<TxSpec> = classes
    .iter()
    .enumerate()
    .map(|(i, (e, _))| TxSpec { label: format!("ht{i}"), ins: vec![format!("chb{i}:0")], outs: vec![OutSpec { v: SUBSIDY_UNITS, t: "tr".into(), s: 1 }], envs: vec![e.clone()], ..Default::default() })
    .collect();
  steps.push(Step::Block(BlockSpec { id: "hx0".into(), txs: first, cb: vec![OutSpec { v: SUBSIDY_UNITS, t: "tr".into(), s: 0 }], ..Default::default() }));
  // delegating inscriptions (their targets exist now)
  let mut second: Vec<(EnvSpec, Value)> = Vec::new();
  second.push((EnvSpec { nobody: true, delegate: Some("A".into()), ..env("B") }, cls("valid", "none", false, "plain", false)));
  second.push((EnvSpec { nobody: true, delegate: Some("H".into()), ..env("C") }, cls("valid", "none", false, "hidden", false)));
  second.push((EnvSpec { nobody: true, delegate: Some("zz-missing".into()), ..env("D") }, cls("valid", "none", false, "missing", false)));
  second.push((EnvSpec { delegate: Some("A".into()), ..env("P") }, cls("valid", "none", true, "plain", false)));
  second.push((EnvSpec { nobody: true, delegate: Some("I".into()), ..env("Q") }, cls("valid", "br", false, "plain", false)));
  second.push((EnvSpec { ct: Some("html".into()), nobody: true, delegate: Some("H".into()), ..env("R") }, cls("valid", "none", false, "hidden", false)));
  let base = classes.len();
  let txs2: Vec<TxSpec> = second
    .iter()
    .enumerate()
    .map(|(i, (e, _))| TxSpec { label: format!("hu{i}"), ins: vec![format!("chb{}:0", base + i)], outs: vec![OutSpec { v: SUBSIDY_UNITS, t: "tr".into(), s: 2 }], envs: vec![e.clone()], ..Default::default() })
    .collect();
  steps.push(Step::Block(BlockSpec { id: "hx1".into(), txs: txs2, cb: vec![OutSpec { v: SUBSIDY_UNITS, t: "tr".into(), s: 0 }], ..Default::default() }));
  // a delegate of a delegate, and a reinscription on A's sat
  let mut third: Vec<(EnvSpec, Value)> = Vec::new();
  third.push((EnvSpec { nobody: true, delegate: Some("B".into()), ..env("E") }, cls("valid", "none", false, "delegating", false)));
  third.push((env("N"), cls("valid", "none", true, "none", false)));
  let txs3 = vec![
    TxSpec { label: "hv0".into(), ins: vec![format!("chb{}:0", base + second.len())], outs: vec![OutSpec { v: SUBSIDY_UNITS, t: "tr".into(), s: 3 }], envs: vec![third[0].0.clone()], ..Default::default() },
    // reveal N on the output that holds A: same sat
    TxSpec { label: "hv1".into(), ins: vec!["ht0:0".into()], outs: vec![OutSpec { v: SUBSIDY_UNITS, t: "tr".into(), s: 3 }], envs: vec![third[1].0.clone()], ..Default::default() },
  ];
  steps.push(Step::Block(BlockSpec { id: "hx2".into(), txs: txs3, cb: vec![OutSpec { v: SUBSIDY_UNITS, t: "tr".into(), s: 0 }], ..Default::default() }));
  steps.push(Step::Update);
  let mut all: Vec<(String, Value)> = Vec::new();
  for (e, c) in classes.into_iter().chain(second).chain(third) {
    all.push((e.label.clone(), c));
  }
  (
    Scenario { name: "content".into(), chain: "regtest".into(), flags: vec!["sats".into(), "runes".into()], commit_interval: None, savepoint_interval: None, max_savepoints: None, steps },
    all,
  )
}

pub struct Running {
  pub port: u16,
  pub handle: axum_server::Handle<SocketAddr>,
}

pub fn start_server(r: &Runner, index: Arc<ord::Index>, extra: &[&str]) -> Result<Running> {
  let settings = r.settings(r.dir.path())?;
  let mut args: Vec<String> = vec!["server".into(), "--http-port".into(), "0".into(), "--address".into(), "127.0.0.1".into(), "--no-sync".into()];
  args.extend(extra.iter().map(|s| s.to_string()));
  let server = Server::try_parse_from(args)?;
  let handle = axum_server::Handle::new();
  let (tx, rx) = std::sync::mpsc::channel();
  let h2 = handle.clone();
  std::thread::spawn(move || {
    let _ = server.run(settings, index, h2, Some(tx));
  });
  let port = rx.recv_timeout(std::time::Duration::from_secs(30)).map_err(|_| anyhow!("server did not start"))?;
  Ok(Running { port, handle })
}

fn csp_tokens(resp: &reqwest::blocking::Response) -> Vec<Vec<String>> {
  resp
    .headers()
    .get_all("content-security-policy")
    .iter()
    .map(|v| v.to_str().unwrap_or("").split_whitespace().map(|s| s.to_string()).collect())
    .collect()
}

pub fn content(out: &str) -> Result<()> {
  let (sc, classes) = content_scenario();
  let mut r = Runner::new(sc, Opts { state_after_update: false, ..Default::default() })?;
  // the hidden list must be in place before settings are built; the ids are known once the chain is built,
  // so build the chain first without opening the index
  r.reset_event();
  let steps = r.sc.steps.clone();
  for s in &steps {
    if let Step::Block(_) = s {
      r.step(s)?;
    }
  }
  let hidden_id = r.node.inscription_id("H");
  std::fs::write(r.dir.path().join("ord.yaml"), format!("hidden:\n- {hidden_id}\n"))?;
  r.open()?;
  r.update()?;
  let index = Arc::new(r.index.take().unwrap());
  let mut f = std::io::BufWriter::new(std::fs::File::create(out)?);
  let client = reqwest::blocking::Client::builder().no_gzip().no_brotli().no_deflate().build()?;
  let origin = "https://ord.example";
  let bodies: Vec<(String, Vec<u8>)> = classes.iter().map(|(l, _)| (l.clone(), l.as_bytes().to_vec())).collect();
  let src_of = |body: &[u8]| -> String {
    for (l, b) in &bodies {
      if body == &b[..] {
        return l.clone();
      }
      if body == &crate::node::brotli_bytes(b)[..] {
        return format!("br:{l}");
      }
    }
    let text = String::from_utf8_lossy(body);
    if text.contains("unknown") && text.contains("<") {
      return "placeholder".into();
    }
    if text.contains("<html") || text.contains("<!doctype") {
      return "page".into();
    }
    if body.is_empty() { "empty".into() } else { "other".into() }
  };
  for (use_origin, decompress) in [(false, false), (true, true), (false, true), (true, false)] {
    let mut extra: Vec<&str> = Vec::new();
    if use_origin {
      extra.extend(["--csp-origin", origin]);
    }
    if decompress {
      extra.push("--decompress");
    }
    let srv = start_server(&r, index.clone(), &extra)?;
    let base = format!("http://127.0.0.1:{}", srv.port);
    let mut requests: Vec<(String, String, String)> = Vec::new(); // (route class, label, path)
    for (label, _) in &classes {
      let id = r.node.inscription_id(label);
      requests.push(("content".into(), label.clone(), format!("/content/{id}")));
      requests.push(("undelegated".into(), label.clone(), format!("/r/undelegated-content/{id}")));
      requests.push(("preview".into(), label.clone(), format!("/preview/{id}")));
      requests.push(("json".into(), label.clone(), format!("/inscription/{id}")));
      if let Some(sat) = index.get_inscription_entry(id)?.and_then(|e| e.sat) {
        let ids = index.get_inscription_ids_by_sat(sat)?;
        if let Some(pos) = ids.iter().position(|x| *x == id) {
          requests.push(("sat_at_pos".into(), label.clone(), format!("/r/sat/{}/at/{pos}/content", sat.0)));
          // the same inscription counted back from the newest one on the sat (-1, -2, ...)
          let neg = pos as i64 - ids.len() as i64;
          requests.push(("sat_at_neg".into(), label.clone(), format!("/r/sat/{}/at/{neg}/content", sat.0)));
        }
      }
    }
    requests.push(("notfound".into(), "".into(), "/this/does/not/exist".into()));
    requests.push(("content".into(), "zz-missing".into(), format!("/content/{}", r.node.inscription_id("zz-missing"))));
    requests.push(("home".into(), "".into(), "/".into()));
    requests.push(("json".into(), "".into(), "/status".into()));
    requests.push(("bad".into(), "".into(), "/content/notanid".into()));
    for (route, label, path) in requests {
      for accept in ["none", "br", "gzip, br;q=0.5", "gzip"] {
        let mut req = client.get(format!("{base}{path}"));
        if accept != "none" {
          req = req.header("accept-encoding", accept);
        }
        if route == "json" {
          req = req.header("accept", "application/json");
        }
        let resp = req.send()?;
        let status = resp.status().as_u16();
        let h = |n: &str| resp.headers().get(n).and_then(|v| v.to_str().ok()).unwrap_or("").to_string();
        let (ctype, cenc, cache) = (h("content-type"), h("content-encoding"), h("cache-control"));
        let csp = csp_tokens(&resp);
        let body = resp.bytes()?.to_vec();
        let cls = classes.iter().find(|(l, _)| *l == label).map(|(_, c)| c.clone()).unwrap_or(json!({"ct": "valid", "enc": "none", "body": false, "delegate": "none", "hiddenCfg": false, "unknown": true}));
        let describe = |lab: &str| -> Value {
          match classes.iter().find(|(l, _)| l == lab) {
            Some((l, c)) => {
              let ctype = match l.as_str() {
                "T" => "text/plain;charset=utf-8",
                "W" | "R" => "text/html",
                _ => "image/png",
              };
              json!({"label": l, "ct": c["ct"], "ctype": ctype, "enc": c["enc"], "body": c["body"], "hiddenCfg": c["hiddenCfg"]})
            }
            None => json!({"label": "", "ct": "valid", "ctype": "", "enc": "none", "body": false, "hiddenCfg": false}),
          }
        };
        let own = describe(&label);
        let target = match label.as_str() {
          "B" | "P" => "A",
          "C" | "R" => "H",
          "Q" => "I",
          "E" => "B",
          other => other,
        };
        let eff = describe(target);
        let accepts: Vec<String> = if accept == "none" { vec![] } else { accept.split(',').map(|s| s.split(';').next().unwrap().trim().to_string()).collect() };
        writeln!(f, "{}", json!({"f": "http", "route": route, "label": label, "cls": cls, "own": own, "eff": eff, "accepts": accepts,
          "cfg": {"origin": use_origin, "decompress": decompress},
          "status": status, "ctype": ctype, "cenc": cenc, "cache": cache, "csp": csp, "src": src_of(&body), "len": body.len()}))?;
      }
    }
    srv.handle.shutdown();
  }
  Ok(())
}

// ---------------------------------------------------------------------------------------------
// C18: JSON and recursive endpoints against the projected index state

fn explorer_scenario() -> Scenario {
  // a parent P, then 205 transactions each revealing a child of P on the same sat s
  let mut steps = Vec::new();
  for i in 0..6 {
    steps.push(Step::Block(BlockSpec { id: format!("jb{i}"), txs: vec![], cb: vec![OutSpec { v: SUBSIDY_UNITS, t: "tr".into(), s: (i % 3) as u32 }], ..Default::default() }));
  }
  let p = EnvSpec { label: "JP".into(), input: 0, ..Default::default() };
  let x = EnvSpec { label: "JX0".into(), input: 0, ..Default::default() };
  steps.push(Step::Block(BlockSpec {
    id: "jc0".into(),
    txs: vec![
      TxSpec { label: "jp".into(), ins: vec!["cjb0:0".into()], outs: vec![OutSpec { v: SUBSIDY_UNITS, t: "tr".into(), s: 1 }], envs: vec![p], ..Default::default() },
      TxSpec { label: "jx0".into(), ins: vec!["cjb1:0".into()], outs: vec![OutSpec { v: SUBSIDY_UNITS, t: "tr".into(), s: 2 }], envs: vec![x], ..Default::default() },
    ],
    cb: vec![OutSpec { v: SUBSIDY_UNITS, t: "tr".into(), s: 0 }],
    ..Default::default()
  }));
  let mut prev_x = "jx0:0".to_string();
  let mut prev_p = "jp:0".to_string();
  let mut k = 1;
  for b in 0..3 {
    let mut txs = Vec::new();
    let n = [101usize, 100, 4][b];
    for _ in 0..n {
      let label = format!("jx{k}");
      let e = EnvSpec { label: format!("JX{k}"), input: 0, parents: vec!["JP".into()], hidden: k % 7 == 0, ..Default::default() };
      txs.push(TxSpec {
        label: label.clone(),
        ins: vec![prev_x.clone(), prev_p.clone()],
        outs: vec![OutSpec { v: SUBSIDY_UNITS, t: "tr".into(), s: 2 }, OutSpec { v: SUBSIDY_UNITS, t: "tr".into(), s: 1 }],
        envs: vec![e],
        ..Default::default()
      });
      prev_x = format!("{label}:0");
      prev_p = format!("{label}:1");
      k += 1;
    }
    steps.push(Step::Block(BlockSpec { id: format!("jd{b}"), txs, cb: vec![OutSpec { v: SUBSIDY_UNITS, t: "tr".into(), s: 0 }], ..Default::default() }));
  }
  // a second parent with exactly one full page (100) of children
  let q = EnvSpec { label: "JQ".into(), input: 0, ..Default::default() };
  let y = EnvSpec { label: "JY0".into(), input: 0, ..Default::default() };
  let mut txs = vec![
    TxSpec { label: "jq".into(), ins: vec!["cjb3:0".into()], outs: vec![OutSpec { v: SUBSIDY_UNITS, t: "tr".into(), s: 1 }], envs: vec![q], ..Default::default() },
    TxSpec { label: "jy0".into(), ins: vec!["cjb4:0".into()], outs: vec![OutSpec { v: SUBSIDY_UNITS, t: "tr".into(), s: 2 }], envs: vec![y], ..Default::default() },
  ];
  let mut prev_y = "jy0:0".to_string();
  let mut prev_q = "jq:0".to_string();
  for k in 1..=100 {
    let label = format!("jy{k}");
    let e = EnvSpec { label: format!("JY{k}"), input: 0, parents: vec!["JQ".into()], ..Default::default() };
    txs.push(TxSpec {
      label: label.clone(),
      ins: vec![prev_y.clone(), prev_q.clone()],
      outs: vec![OutSpec { v: SUBSIDY_UNITS, t: "tr".into(), s: 2 }, OutSpec { v: SUBSIDY_UNITS, t: "tr".into(), s: 1 }],
      envs: vec![e],
      ..Default::default()
    });
    prev_y = format!("{label}:0");
    prev_q = format!("{label}:1");
  }
  steps.push(Step::Block(BlockSpec { id: "jf0".into(), txs, cb: vec![OutSpec { v: SUBSIDY_UNITS, t: "tr".into(), s: 0 }], ..Default::default() }));
  // an inscription whose sat is paid as fee and not claimed by the coinbase: lost
  steps.push(Step::Block(BlockSpec {
    id: "je0".into(),
    txs: vec![TxSpec {
      label: "jl".into(),
      ins: vec!["cjb2:0".into()],
      outs: vec![OutSpec { v: 0, t: "opret".into(), s: 5 }],
      envs: vec![EnvSpec { label: "JL".into(), input: 0, ..Default::default() }],
      ..Default::default()
    }],
    cb: vec![OutSpec { v: SUBSIDY_UNITS, t: "tr".into(), s: 0 }],
    ..Default::default()
  }));
  steps.push(Step::Update);
  Scenario { name: "explorer".into(), chain: "regtest".into(), flags: vec!["sats".into(), "runes".into(), "addresses".into()], commit_interval: None, savepoint_interval: None, max_savepoints: None, steps }
}

struct Ctx<'a> {
  r: &'a Runner,
  client: reqwest::blocking::Client,
  base: String,
}

impl Ctx<'_> {
  fn get(&self, path: &str) -> Result<(u16, Value)> {
    let resp = self.client.get(format!("{}{path}", self.base)).header("accept", "application/json").send()?;
    let status = resp.status().as_u16();
    let v: Value = resp.json().unwrap_or(Value::Null);
    Ok((status, v))
  }
  fn id_label(&self, v: &Value) -> String {
    match v.as_str().and_then(|s| s.parse::<ord::InscriptionId>().ok()) {
      Some(id) => self.r.node.inscription_label(id),
      None => "".into(),
    }
  }
  fn ids(&self, v: &Value) -> Vec<String> {
    v.as_array().map(|a| a.iter().map(|x| self.id_label(x)).collect()).unwrap_or_default()
  }
  fn out_label(&self, v: &Value) -> String {
    match v.as_str().and_then(|s| s.parse::<bitcoin::OutPoint>().ok()) {
      Some(o) => self.r.node.outpoint_label(o),
      None => "".into(),
    }
  }
  fn satpoint(&self, v: &Value) -> Value {
    match v.as_str().and_then(|s| s.parse::<ordinals::SatPoint>().ok()) {
      Some(sp) => {
        if sp.outpoint == ord::unbound_outpoint() {
          json!(["unbound", sp.offset])
        } else {
          json!([self.r.node.outpoint_label(sp.outpoint), sp.offset / K])
        }
      }
      None => json!([]),
    }
  }
  fn charms(&self, v: &Value) -> Vec<String> {
    v.as_array().map(|a| a.iter().map(|c| c.as_str().unwrap_or("").to_string()).collect()).unwrap_or_default()
  }
  fn runes(&self, v: &Value) -> Vec<Value> {
    // BTreeMap<SpacedRune, Pile> -> [[name without spacers, amount]]
    let mut out = Vec::new();
    if let Some(m) = v.as_object() {
      for (k, pile) in m {
        let name: String = k.chars().filter(|c| c.is_ascii_uppercase()).collect();
        out.push(json!([name, pile["amount"].as_u64().unwrap_or(0)]));
      }
    }
    out
  }
}

/// TLC's JSON module has no null: absent booleans become false, anything else -1
fn denull(v: &mut Value, key: &str) {
  match v {
    Value::Null => *v = if ["more", "spent", "indexed"].contains(&key) { json!(false) } else { json!(-1) },
    Value::Array(a) => a.iter_mut().for_each(|x| denull(x, key)),
    Value::Object(o) => o.iter_mut().for_each(|(k, x)| denull(x, k)),
    _ => {}
  }
}

fn units_opt(v: &Value) -> Value {
  match v.as_u64() {
    Some(x) => json!(x / K),
    None => json!(-1),
  }
}

pub fn json_routes(seed: u64, n_random: usize, blocks: usize, out: &str) -> Result<()> {
  let mut f = std::io::BufWriter::new(std::fs::File::create(out)?);
  let mut scenarios = vec![explorer_scenario()];
  for i in 0..n_random {
    let cfg = crate::r#gen::GenCfg { blocks, max_txs: 4, inscriptions: true, runes: true, update_every: 0, reopen: false, dup_coinbase: false, junk: false };
    scenarios.push(crate::r#gen::ledger(seed * 1000 + i as u64, &format!("w{i}"), &cfg, &["sats", "runes", "addresses"], "regtest"));
    if i % 2 == 0 {
      scenarios.push(crate::r#gen::runes(seed * 1000 + i as u64, &format!("v{i}"), blocks.max(20), &["sats", "runes", "addresses"], "regtest"));
    }
  }
  for sc in scenarios {
    let mut r = Runner::new(sc, Opts { state_after_update: false, lookups: false, ..Default::default() })?;
    r.run()?;
    r.state()?;
    for e in r.out.drain(..) {
      writeln!(f, "{e}")?;
    }
    let state = r.project()?;
    let index = Arc::new(r.index.take().unwrap());
    let srv = start_server(&r, index.clone(), &[])?;
    let cx = Ctx { r: &r, client: reqwest::blocking::Client::new(), base: format!("http://127.0.0.1:{}", srv.port) };
    let mut rows: Vec<Value> = Vec::new();
    // outputs
    let labels: Vec<String> = state["outs"].as_object().unwrap().keys().cloned().collect();
    for (i, label) in labels.iter().enumerate() {
      if label == "lost" || label == "unbound" || (labels.len() > 150 && i % 3 != 0) {
        continue;
      }
      let op = r.node.outpoint(label);
      let (st, j) = cx.get(&format!("/output/{op}"))?;
      rows.push(json!({"f": "json", "route": "output", "out": label, "status": st, "value": units_opt(&j["value"]),
        "ins": cx.ids(&j["inscriptions"]), "runes": cx.runes(&j["runes"]), "spent": j["spent"], "indexed": j["indexed"],
        "ranges": j["sat_ranges"].as_array().map(|a| a.iter().map(|p| json!([p[0].as_u64().unwrap() / K, p[1].as_u64().unwrap() / K])).collect::<Vec<_>>()).unwrap_or_default()}));
      let (st, j) = cx.get(&format!("/r/utxo/{op}"))?;
      rows.push(json!({"f": "json", "route": "utxo", "out": label, "status": st, "value": units_opt(&j["value"]),
        "ins": cx.ids(&j["inscriptions"]), "runes": cx.runes(&j["runes"]),
        "ranges": j["sat_ranges"].as_array().map(|a| a.iter().map(|p| json!([p[0].as_u64().unwrap() / K, p[1].as_u64().unwrap() / K])).collect::<Vec<_>>()).unwrap_or_default()}));
    }
    // inscriptions
    let insc = state["insc"].as_array().unwrap().clone();
    let mut sats_seen = std::collections::BTreeSet::new();
    for (i, e) in insc.iter().enumerate() {
      let label = e["l"].as_str().unwrap();
      let id = r.node.inscription_id(label);
      let sample = insc.len() <= 60 || i % 9 == 0 || i + 3 >= insc.len() || i < 3;
      if sample {
        for (route, path) in [("inscription", format!("/inscription/{id}")), ("inscription", format!("/inscription/{}", e["num"])), ("rinscription", format!("/r/inscription/{id}"))] {
          let (st, j) = cx.get(&path)?;
          rows.push(json!({"f": "json", "route": route, "l": label, "status": st, "id": cx.id_label(&j["id"]), "num": j["number"], "h": j["height"],
            "sat": units_opt(&j["sat"]), "sp": cx.satpoint(&j["satpoint"]), "value": units_opt(&j["value"]), "charms": cx.charms(&j["charms"]),
            "feeq": j["fee"].as_u64().unwrap_or(0) / K, "feer": j["fee"].as_u64().unwrap_or(0) % K,
            "parents": cx.ids(&j["parents"]), "childCount": j["child_count"], "children": cx.ids(&j["children"]),
            "output": cx.out_label(&j["output"]), "hasParents": !j["parents"].is_null()}));
        }
        for page in [0usize, 1, 2] {
          for (route, key, path) in [("children", "ids", format!("/r/children/{id}/{page}")), ("parents", "ids", format!("/r/parents/{id}/{page}"))] {
            let (st, j) = cx.get(&path)?;
            rows.push(json!({"f": "json", "route": route, "l": label, "page": page, "status": st, "ids": cx.ids(&j[key]), "more": j["more"], "rpage": j["page"]}));
          }
        }
        let (st, j) = cx.get(&format!("/r/children/{id}/inscriptions"))?;
        rows.push(json!({"f": "json", "route": "childrenInfo", "l": label, "status": st,
          "items": j["children"].as_array().map(|a| a.iter().map(|c| json!([cx.id_label(&c["id"]), c["number"], cx.satpoint(&c["satpoint"])])).collect::<Vec<_>>()).unwrap_or_default(),
          "more": j["more"]}));
      }
      if let Some(s) = e["sat"].as_i64() {
        if s >= 0 && sats_seen.insert(s) {
          let sat = (s as u64) * K;
          for page in [0usize, 1, 2] {
            let (st, j) = cx.get(&format!("/r/sat/{sat}/{page}"))?;
            rows.push(json!({"f": "json", "route": "sat", "sat": s, "page": page, "status": st, "ids": cx.ids(&j["ids"]), "more": j["more"], "rpage": j["page"]}));
          }
          for at in [0i64, 1, 99, 100, 204, -1, -2, -100, -101, -205, -206, 5000] {
            let (st, j) = cx.get(&format!("/r/sat/{sat}/at/{at}"))?;
            rows.push(json!({"f": "json", "route": "satAt", "sat": s, "at": at, "status": st, "id": cx.id_label(&j["id"])}));
          }
          let (st, j) = cx.get(&format!("/sat/{sat}"))?;
          rows.push(json!({"f": "json", "route": "satPage", "sat": s, "status": st, "ids": cx.ids(&j["inscriptions"]), "sp": cx.satpoint(&j["satpoint"])}));
        }
      }
    }
    // blocks
    let count = state["count"].as_u64().unwrap();
    for h in 0..count {
      for page in [0usize, 1, 2] {
        let (st, j) = cx.get(&format!("/inscriptions/block/{h}/{page}"))?;
        if page == 0 || !j["ids"].as_array().map(|a| a.is_empty()).unwrap_or(true) {
          rows.push(json!({"f": "json", "route": "block", "h": h, "page": page, "status": st, "ids": cx.ids(&j["ids"]), "more": j["more"], "rpage": j["page_index"]}));
        }
      }
    }
    // runes
    for e in state["runes"].as_array().unwrap() {
      let name = e["name"].as_str().unwrap();
      let (st, j) = cx.get(&format!("/rune/{name}"))?;
      let en = &j["entry"];
      rows.push(json!({"f": "json", "route": "rune", "name": name, "status": st, "id": j["id"].as_str().map(|s| { let (b, t) = s.split_once(':').unwrap(); json!([b.parse::<u64>().unwrap(), t.parse::<u64>().unwrap()]) }).unwrap_or(json!([])),
        "mints": en["mints"], "burned": en["burned"], "premine": en["premine"], "num": en["number"], "block": en["block"],
        "etx": en["etching"].as_str().and_then(|s| s.parse::<bitcoin::Txid>().ok()).and_then(|t| r.node.tx_labels.get(&t).cloned()).unwrap_or_default()}));
    }
    let (st, j) = cx.get("/runes")?;
    rows.push(json!({"f": "json", "route": "runes", "status": st,
      "names": j["entries"].as_array().map(|a| a.iter().map(|p| p[1]["spaced_rune"].as_str().unwrap_or("").chars().filter(|c| c.is_ascii_uppercase()).collect::<String>()).collect::<Vec<_>>()).unwrap_or_default()}));
    // addresses
    if let Some(addr) = state["addr"].as_object() {
      for sid in addr.keys() {
        let (t, n) = sid.split_once(':').unwrap();
        let script = crate::node::script_for(t, n.parse().unwrap());
        let Ok(a) = bitcoin::Address::from_script(&script, bitcoin::Network::Regtest) else { continue };
        let (st, j) = cx.get(&format!("/address/{a}"))?;
        let mut outs: Vec<String> = j["outputs"].as_array().map(|x| x.iter().map(|o| cx.out_label(o)).collect()).unwrap_or_default();
        outs.sort();
        rows.push(json!({"f": "json", "route": "address", "script": sid, "status": st, "outs": outs, "ins": cx.ids(&j["inscriptions"]),
          "satBalance": units_opt(&j["sat_balance"]),
          "runes": j["runes_balances"].as_array().map(|x| x.iter().map(|p| json!([p[0].as_str().unwrap_or("").chars().filter(|c| c.is_ascii_uppercase()).collect::<String>(), p[1].as_str().unwrap_or("").to_string()])).collect::<Vec<_>>()).unwrap_or_default()}));
      }
    }
    for mut row in rows {
      denull(&mut row, "");
      writeln!(f, "{row}")?;
    }
    srv.handle.shutdown();
  }
  Ok(())
}
