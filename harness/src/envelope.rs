//! C27: envelope parsing and reveal-script round trips on the real code.

use {
  crate::sample::limbs,
  anyhow::Result,
  bitcoin::{Amount, OutPoint, ScriptBuf, Sequence, Transaction, TxIn, TxOut, Txid, Witness, absolute::LockTime,
    blockdata::{opcodes, script}, hashes::Hash, transaction::Version},
  ord::{Chain, Inscription, InscriptionId, ParsedEnvelope, Properties, RawEnvelope},
  rand::{Rng, SeedableRng, rngs::StdRng, seq::SliceRandom},
  serde_json::{Value, json},
  std::io::Write,
};

fn tx_with_script(scripts: Vec<ScriptBuf>) -> Transaction {
  Transaction {
    version: Version(2),
    lock_time: LockTime::ZERO,
    input: scripts
      .into_iter()
      .map(|s| {
        let mut w = Witness::new();
        if !s.is_empty() {
          w.push(s.as_bytes());
          w.push([0xc0u8; 33]);
        }
        TxIn { previous_output: OutPoint::null(), script_sig: ScriptBuf::new(), sequence: Sequence::MAX, witness: w }
      })
      .collect(),
    output: vec![TxOut { value: Amount::from_sat(1), script_pubkey: ScriptBuf::new() }],
  }
}

fn script_of(toks: &[&str]) -> ScriptBuf {
  let mut b = script::Builder::new();
  for t in toks {
    b = match *t {
      "Z" => b.push_opcode(opcodes::OP_FALSE),
      "IF" => b.push_opcode(opcodes::all::OP_IF),
      "ENDIF" => b.push_opcode(opcodes::all::OP_ENDIF),
      "ORD" => b.push_slice(*b"ord"),
      "P" => b.push_slice([7u8, 7]),
      "N" => b.push_opcode(opcodes::all::OP_PUSHNUM_5),
      _ => b.push_opcode(opcodes::all::OP_DROP),
    };
  }
  b.into_script()
}

fn classify(push: &[u8]) -> &'static str {
  if push.is_empty() {
    "Z"
  } else if push == b"ord" {
    "ORD"
  } else if push.len() == 1 {
    "N"
  } else {
    "P"
  }
}

fn sum(b: &[u8]) -> u32 {
  let mut h: u32 = 2166136261;
  for x in b {
    h = (h ^ *x as u32).wrapping_mul(16777619);
  }
  h % 1_000_000_007
}

fn proj(i: &Inscription) -> Value {
  let f = |v: &Option<Vec<u8>>| (v.as_ref().map(|x| x.len()).unwrap_or(0), v.as_ref().map(|x| sum(x)).unwrap_or(0));
  let fields = [("ct", f(&i.content_type)), ("ce", f(&i.content_encoding)), ("mp", f(&i.metaprotocol)), ("dl", f(&i.delegate)),
    ("pt", f(&i.pointer)), ("rn", f(&i.rune)), ("pe", f(&i.property_encoding)), ("md", f(&i.metadata)), ("pr", f(&i.properties)),
    ("body", f(&i.body))];
  let mut len = serde_json::Map::new();
  let mut sm = serde_json::Map::new();
  for (k, (l, s)) in fields {
    len.insert(k.into(), json!(l));
    sm.insert(k.into(), json!(s));
  }
  json!({"len": len, "sum": sm, "parents": i.parents.iter().map(|p| json!([p.len(), sum(p)])).collect::<Vec<_>>()})
}

fn bytes(rng: &mut StdRng, n: usize) -> Option<Vec<u8>> {
  if n == 0 { None } else { Some((0..n).map(|_| rng.r#gen::<u8>()).collect()) }
}

pub fn run(seed: u64, n: usize, max_len: usize, out: &str) -> Result<()> {
  std::panic::set_hook(Box::new(|_| {}));
  let mut rng = StdRng::seed_from_u64(seed);
  let mut f = std::io::BufWriter::new(std::fs::File::create(out)?);
  // 1. every token string up to max_len
  let alphabet = ["Z", "IF", "ENDIF", "ORD", "P", "N", "X"];
  let mut strings: Vec<Vec<&str>> = vec![vec![]];
  let mut frontier: Vec<Vec<&str>> = vec![vec![]];
  for _ in 0..max_len {
    let mut next = Vec::new();
    for s in &frontier {
      for a in alphabet {
        let mut t = s.clone();
        t.push(a);
        next.push(t);
      }
    }
    strings.extend(next.iter().cloned());
    frontier = next;
  }
  // longer random strings biased towards envelope structure
  for _ in 0..n {
    let len = rng.gen_range(max_len + 1..max_len + 14);
    let mut t = Vec::new();
    while t.len() < len {
      if rng.gen_bool(0.3) {
        t.extend(["Z", "IF", "ORD"]);
      } else {
        t.push(*alphabet.choose(&mut rng).unwrap());
      }
    }
    strings.push(t);
  }
  // several (possibly stuttered) envelopes in one script, with noise between them
  for _ in 0..n {
    let mut t: Vec<&str> = Vec::new();
    for _ in 0..rng.gen_range(1..4) {
      for _ in 0..rng.gen_range(0..3) {
        t.push(["X", "P", "N", "ENDIF", "IF"][rng.gen_range(0..5)]);
      }
      for _ in 0..rng.gen_range(1..4) {
        t.push("Z");
      }
      if rng.gen_bool(0.9) {
        t.push("IF");
      }
      if rng.gen_bool(0.9) {
        t.push("ORD");
      }
      for _ in 0..rng.gen_range(0..5) {
        t.push(["P", "N", "Z", "ORD", "P", "P"][rng.gen_range(0..6)]);
      }
      if rng.gen_bool(0.9) {
        t.push("ENDIF");
      }
    }
    strings.push(t);
  }
  for toks in strings {
    let tx = tx_with_script(vec![script_of(&toks)]);
    let r = std::panic::catch_unwind(move || RawEnvelope::from_transaction(&tx));
    match r {
      Ok(envs) => {
        let list: Vec<Value> = envs
          .iter()
          .map(|e| json!({"payload": e.payload.iter().map(|p| classify(p)).collect::<Vec<_>>(), "pushnum": e.pushnum, "stutter": e.stutter}))
          .collect();
        let offsets: Vec<u32> = envs.iter().map(|e| e.offset).collect();
        writeln!(f, "{}", json!({"f": "tokens", "toks": toks, "envs": list, "offsets": offsets, "panic": false}))?;
      }
      Err(_) => writeln!(f, "{}", json!({"f": "tokens", "toks": toks, "envs": [], "offsets": [], "panic": true}))?,
    }
  }
  // 2. round trips through ord's own builder
  let lens = [0usize, 1, 2, 519, 520, 521, 1040, 1041, 1600];
  for _ in 0..n {
    let k = rng.gen_range(1..=3);
    let mut built = Vec::new();
    let mut b = script::Builder::new();
    for _ in 0..k {
      let pick = |rng: &mut StdRng, p: f64| if rng.gen_bool(p) { *lens.choose(rng).unwrap() } else { 0 };
      let small = |rng: &mut StdRng, p: f64| if rng.gen_bool(p) { rng.gen_range(1..40) } else { 0 };
      let n_par = if rng.gen_bool(0.4) { rng.gen_range(1..4) } else { 0 };
      let (ct, ce, mp, dl, pt, rn, pe) = (small(&mut rng, 0.8), small(&mut rng, 0.3), small(&mut rng, 0.3), if rng.gen_bool(0.3) { rng.gen_range(32..37) } else { 0 },
        if rng.gen_bool(0.3) { rng.gen_range(1..9) } else { 0 }, small(&mut rng, 0.2), small(&mut rng, 0.2));
      let (md, pr, body) = (pick(&mut rng, 0.5), pick(&mut rng, 0.4), pick(&mut rng, 0.8));
      let i = Inscription {
        body: bytes(&mut rng, body),
        content_encoding: bytes(&mut rng, ce),
        content_type: bytes(&mut rng, ct),
        delegate: bytes(&mut rng, dl),
        duplicate_field: false,
        incomplete_field: false,
        metadata: bytes(&mut rng, md),
        metaprotocol: bytes(&mut rng, mp),
        parents: (0..n_par).map(|_| bytes(&mut rng, 33).unwrap()).collect(),
        pointer: bytes(&mut rng, pt),
        properties: bytes(&mut rng, pr),
        property_encoding: bytes(&mut rng, pe),
        rune: bytes(&mut rng, rn),
        unrecognized_even_field: false,
      };
      b = i.append_reveal_script_to_builder(b);
      built.push(proj(&i));
    }
    let n_inputs = rng.gen_range(1..3);
    let mut scripts = vec![ScriptBuf::new(); n_inputs];
    let at = rng.gen_range(0..n_inputs);
    scripts[at] = b.into_script();
    let tx = tx_with_script(scripts);
    let tx2 = tx.clone();
    let parsed = std::panic::catch_unwind(move || (ParsedEnvelope::from_transaction(&tx2), RawEnvelope::from_transaction(&tx2)));
    let list: Vec<Value> = match parsed {
      Ok((envs, raws)) => envs
        .iter()
        .zip(raws.iter())
        .map(|(e, r)| {
          let mut p = proj(&e.payload);
          let o = p.as_object_mut().unwrap();
          o.insert("offset".into(), json!(e.offset));
          o.insert("input".into(), json!(e.input));
          o.insert("pushes".into(), json!(r.payload.len()));
          o.insert("dup".into(), json!(e.payload.duplicate_field));
          o.insert("incomplete".into(), json!(e.payload.incomplete_field));
          o.insert("even".into(), json!(e.payload.unrecognized_even_field));
          o.insert("pushnum".into(), json!(e.pushnum));
          o.insert("stutter".into(), json!(e.stutter));
          p
        })
        .collect(),
      Err(_) => vec![json!({"panic": true})],
    };
    writeln!(f, "{}", json!({"f": "roundtrip", "built": built, "parsed": list, "input": at}))?;
  }
  // 3. compact encodings through the public constructor
  let dir = tempfile::TempDir::new()?;
  let path = dir.path().join("x.txt");
  std::fs::write(&path, b"hello")?;
  let mut pointers: Vec<u64> = vec![0, 1, 255, 256, 65535, 65536, u32::MAX as u64, u32::MAX as u64 + 1, u64::MAX, u64::MAX - 1, 1 << 56, (1 << 56) - 1];
  for _ in 0..n / 4 {
    pointers.push(rng.r#gen::<u64>() >> rng.gen_range(0..64));
  }
  for p in pointers {
    let i = Inscription::new(Chain::Regtest, false, None, None, None, vec![], Some(path.clone()), Some(p), Properties::default(), None)?;
    let back = i.pointer();
    writeln!(f, "{}", json!({"f": "pointer", "value": limbs(p as u128), "bytes": i.pointer.clone().unwrap_or_default(),
      "back": {"p": back.is_some(), "v": limbs(back.unwrap_or(0) as u128)}}))?;
  }
  let mut indices: Vec<u32> = vec![0, 1, 255, 256, 65535, 65536, 1 << 24, (1 << 24) - 1, u32::MAX, u32::MAX - 1];
  for _ in 0..n / 4 {
    indices.push(rng.r#gen::<u32>() >> rng.gen_range(0..32));
  }
  for index in indices {
    let id = InscriptionId { txid: Txid::from_byte_array(rng.r#gen()), index };
    let i = Inscription::new(Chain::Regtest, false, Some(id), None, None, vec![id], Some(path.clone()), None, Properties::default(), None)?;
    let back_d = i.delegate();
    let back_p = i.parents();
    let ok = back_d == Some(id) && back_p == vec![id];
    writeln!(f, "{}", json!({"f": "id", "index": limbs(index as u128), "valueLen": i.delegate.as_ref().map(|d| d.len()).unwrap_or(0),
      "backOk": ok, "backIndex": limbs(back_d.map(|d| d.index).unwrap_or(0) as u128)}))?;
  }
  // 4. arbitrary witness bytes
  for _ in 0..n {
    let len = rng.gen_range(0..80);
    let mut raw: Vec<u8> = (0..len).map(|_| rng.r#gen()).collect();
    if rng.gen_bool(0.5) {
      let mut pre = vec![0x00, 0x63, 0x03, b'o', b'r', b'd'];
      pre.extend(raw);
      raw = pre;
    }
    let tx = tx_with_script(vec![ScriptBuf::from_bytes(raw)]);
    let r = std::panic::catch_unwind(move || ParsedEnvelope::from_transaction(&tx).len());
    writeln!(f, "{}", json!({"f": "random", "panic": r.is_err()}))?;
  }
  Ok(())
}
