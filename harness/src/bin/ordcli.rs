//! The real `ord` command line (ord::main), built against /repo's working tree, spawned by the
//! wallet-family drivers exactly as ord's own integration tests spawn the `ord` binary.
fn main() {
  ord::main()
}
