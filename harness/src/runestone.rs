//! C25: real Runestone::decipher / encipher on enumerated and random integer sequences.

use {
  crate::sample::limbs,
  anyhow::Result,
  bitcoin::{Amount, ScriptBuf, Transaction, TxOut, absolute::LockTime, blockdata::{opcodes, script}, transaction::Version},
  ordinals::{Artifact, Edict, Etching, Rune, RuneId, Runestone, Terms, varint},
  rand::{Rng, SeedableRng, rngs::StdRng, seq::SliceRandom},
  serde_json::{Value, json},
  std::io::Write,
};

fn opt(v: Option<u128>) -> Value {
  match v {
    Some(x) => json!({"p": true, "v": limbs(x)}),
    None => json!({"p": false, "v": []}),
  }
}

fn mint_json(m: Option<RuneId>) -> Value {
  match m {
    Some(id) => json!({"p": true, "v": [limbs(id.block as u128), limbs(id.tx as u128)]}),
    None => json!({"p": false, "v": []}),
  }
}

fn stone_json(r: &Runestone) -> Value {
  let etching = match r.etching {
    None => json!({"p": false}),
    Some(e) => {
      let t = e.terms;
      json!({"p": true,
        "divisibility": opt(e.divisibility.map(u128::from)), "premine": opt(e.premine), "rune": opt(e.rune.map(|r| r.0)),
        "spacers": opt(e.spacers.map(u128::from)), "symbol": opt(e.symbol.map(|c| c as u128)), "turbo": e.turbo,
        "terms": t.is_some(),
        "cap": opt(t.and_then(|t| t.cap)), "amount": opt(t.and_then(|t| t.amount)),
        "hs": opt(t.and_then(|t| t.height.0.map(u128::from))), "he": opt(t.and_then(|t| t.height.1.map(u128::from))),
        "os": opt(t.and_then(|t| t.offset.0.map(u128::from))), "oe": opt(t.and_then(|t| t.offset.1.map(u128::from)))})
    }
  };
  json!({"kind": "stone",
    "edicts": r.edicts.iter().map(|e| json!({"block": limbs(e.id.block as u128), "tx": limbs(e.id.tx as u128),
      "amount": limbs(e.amount), "output": limbs(e.output as u128)})).collect::<Vec<_>>(),
    "mint": mint_json(r.mint), "pointer": opt(r.pointer.map(u128::from)), "etching": etching})
}

fn artifact_json(a: Option<Artifact>) -> Value {
  match a {
    None => json!({"kind": "none"}),
    Some(Artifact::Cenotaph(c)) => json!({"kind": "ceno",
      "flaw": c.flaw.map(|f| serde_json::to_value(f).unwrap().as_str().unwrap().to_string()).unwrap_or_default(),
      "mint": mint_json(c.mint), "rune": opt(c.etching.map(|r| r.0))}),
    Some(Artifact::Runestone(r)) => stone_json(&r),
  }
}

fn tx_with(script: ScriptBuf, n_out: usize, stone_at: usize) -> Transaction {
  let mut output = Vec::new();
  for i in 0..n_out {
    if i == stone_at {
      output.push(TxOut { value: Amount::ZERO, script_pubkey: script.clone() });
    } else {
      output.push(TxOut { value: Amount::from_sat(1000), script_pubkey: crate::node::script_for("tr", i as u32) });
    }
  }
  Transaction { version: Version(2), lock_time: LockTime::ZERO, input: Vec::new(), output }
}

fn decipher(tx: &Transaction) -> Value {
  let tx = tx.clone();
  match std::panic::catch_unwind(move || Runestone::decipher(&tx)) {
    Ok(a) => artifact_json(a),
    Err(_) => json!({"kind": "panic"}),
  }
}

fn payload_script(ints: &[u128]) -> ScriptBuf {
  let mut payload = Vec::new();
  for i in ints {
    varint::encode_to_vec(*i, &mut payload);
  }
  crate::node::stone_script(&payload, false)
}

pub fn run(seed: u64, n: usize, exhaustive: bool, out: &str) -> Result<()> {
  std::panic::set_hook(Box::new(|_| {}));
  let mut rng = StdRng::seed_from_u64(seed);
  let mut f = std::io::BufWriter::new(std::fs::File::create(out)?);
  let tags: Vec<u128> = vec![2, 4, 6, 8, 10, 12, 14, 16, 18, 20, 22, 1, 3, 5, 127, 126, 100, 101, u64::MAX as u128 + 1];
  let vals: Vec<u128> = vec![0, 1, 2, 3, 4, 7, 38, 39, 0xD800, 0x10FFFF, 0x110000, (1 << 27) - 1, 1 << 27,
    u32::MAX as u128, u32::MAX as u128 + 1, u64::MAX as u128, u64::MAX as u128 + 1, 1 << 127, u128::MAX];
  let n_outs = [1usize, 2, 4];
  let mut emit = |ints: Vec<u128>, n_out: usize, f: &mut std::io::BufWriter<std::fs::File>| -> Result<()> {
    let tx = tx_with(payload_script(&ints), n_out, 0);
    writeln!(f, "{}", json!({"f": "decipher", "ints": ints.iter().map(|i| limbs(*i)).collect::<Vec<_>>(), "nOut": n_out, "obs": decipher(&tx)}))?;
    Ok(())
  };
  // all single pairs and (sampled or all) double pairs
  emit(vec![], 2, &mut f)?;
  for t in &tags {
    emit(vec![*t], 2, &mut f)?;
    for v in &vals {
      emit(vec![*t, *v], 2, &mut f)?;
    }
  }
  let mut count = 0usize;
  for t1 in &tags {
    for v1 in &vals {
      for t2 in &tags {
        for v2 in &vals {
          count += 1;
          if !exhaustive && rng.gen_range(0..100) >= 3 {
            continue;
          }
          let _ = count;
          emit(vec![*t1, *v1, *t2, *v2], *n_outs.choose(&mut rng).unwrap(), &mut f)?;
        }
      }
    }
  }
  // structured random messages: flags + fields + body
  let small: Vec<u128> = vec![0, 1, 2, 3, 4, 5];
  for _ in 0..n {
    let n_out = *n_outs.choose(&mut rng).unwrap();
    let mut ints: Vec<u128> = Vec::new();
    if rng.gen_bool(0.8) {
      let mut flags = 0u128;
      for b in 0..3 {
        if rng.gen_bool(0.6) {
          flags |= 1 << b;
        }
      }
      if rng.gen_bool(0.05) {
        flags |= 1 << rng.gen_range(3..128);
      }
      ints.extend([2, flags]);
    }
    for _ in 0..rng.gen_range(0..7) {
      let t = *tags.choose(&mut rng).unwrap();
      let v = if rng.gen_bool(0.6) { *small.choose(&mut rng).unwrap() } else { *vals.choose(&mut rng).unwrap() };
      ints.extend([t, v]);
    }
    if rng.gen_bool(0.1) {
      ints.push(*tags.choose(&mut rng).unwrap()); // truncated
    }
    if rng.gen_bool(0.6) {
      ints.push(0);
      for _ in 0..rng.gen_range(0..4) {
        let bd = if rng.gen_bool(0.7) { *small.choose(&mut rng).unwrap() } else { *vals.choose(&mut rng).unwrap() };
        let td = if rng.gen_bool(0.7) { *small.choose(&mut rng).unwrap() } else { *vals.choose(&mut rng).unwrap() };
        let am = *vals.choose(&mut rng).unwrap();
        let ou = if rng.gen_bool(0.8) { rng.gen_range(0..=n_out as u128 + 1) } else { *vals.choose(&mut rng).unwrap() };
        ints.extend([bd, td, am, ou]);
      }
      for _ in 0..(if rng.gen_bool(0.15) { rng.gen_range(1..4) } else { 0 }) {
        ints.push(*small.choose(&mut rng).unwrap());
      }
    }
    emit(ints, n_out, &mut f)?;
  }
  // script-level classes
  let valid = payload_script(&[2, 1, 4, 99, 20, 5, 20, 6]);
  let b = |ops: &[u8]| ScriptBuf::from_bytes(ops.to_vec());
  let mut no13 = script::Builder::new().push_opcode(opcodes::all::OP_RETURN).push_opcode(opcodes::all::OP_PUSHNUM_12);
  no13 = no13.push_slice([1u8, 2]);
  let cases: Vec<(&str, Vec<ScriptBuf>)> = vec![
    ("none", vec![crate::node::script_for("tr", 1), no13.into_script(), b(&[0x6a]), b(&[0x6a, 0x4c]), b(&[0x51, 0x5d]), b(&[])]),
    ("opcode", vec![crate::node::stone_script(&[2, 1], true), b(&[0x6a, 0x5d, 0x51]), b(&[0x6a, 0x5d, 0x01, 0x02, 0x6a])]),
    ("invalid-script", vec![b(&[0x6a, 0x5d, 0x05, 0x01]), b(&[0x6a, 0x5d, 0x4c]), b(&[0x6a, 0x5d, 0x4d, 0xff])]),
    ("varint", vec![b(&[0x6a, 0x5d, 0x01, 0x80]), b(&[0x6a, 0x5d, 0x02, 0x02, 0x81]),
      { let mut p = vec![0x6a, 0x5d, 20]; p.extend([0xffu8; 19]); p.push(0x01); b(&p) }]),
  ];
  for (cls, scripts) in cases {
    for s in scripts {
      for n_out in [1usize, 3] {
        let tx = tx_with(s.clone(), n_out, n_out - 1);
        writeln!(f, "{}", json!({"f": "payload", "cls": cls, "script": s.to_hex_string(), "obs": decipher(&tx)}))?;
      }
    }
  }
  // the first matching output wins; a later valid one is ignored
  {
    let mut tx = tx_with(crate::node::stone_script(&[2, 1], true), 3, 0);
    tx.output[2].script_pubkey = valid.clone();
    writeln!(f, "{}", json!({"f": "payload", "cls": "opcode", "script": "first-of-two", "obs": decipher(&tx)}))?;
  }
  // random byte payloads for totality
  for _ in 0..n {
    let len = rng.gen_range(0..40);
    let bytes: Vec<u8> = (0..len).map(|_| rng.r#gen()).collect();
    let mut s = vec![0x6a, 0x5d];
    s.extend(bytes);
    let tx = tx_with(b(&s), 2, 1);
    writeln!(f, "{}", json!({"f": "payload", "cls": "any", "script": "", "obs": decipher(&tx)}))?;
  }
  // round trips
  for _ in 0..n {
    let big = |rng: &mut StdRng| -> u128 { if rng.gen_bool(0.5) { rng.gen_range(0..1000) } else { rng.r#gen() } };
    let n_out = rng.gen_range(1..6usize);
    let mut edicts = Vec::new();
    for _ in 0..rng.gen_range(0..5) {
      let block = if rng.gen_bool(0.1) { rng.r#gen::<u64>() } else { rng.gen_range(1..50) };
      edicts.push(Edict { id: RuneId { block, tx: rng.gen_range(0..5) }, amount: big(&mut rng), output: rng.gen_range(0..=n_out as u32) });
    }
    let etching = rng.gen_bool(0.6).then(|| {
      let premine = rng.gen_bool(0.5).then(|| big(&mut rng) >> 2);
      let terms = rng.gen_bool(0.6).then(|| Terms {
        amount: rng.gen_bool(0.5).then(|| rng.gen_range(0..1u128 << 60)),
        cap: rng.gen_bool(0.5).then(|| rng.gen_range(0..1u128 << 60)),
        height: (rng.gen_bool(0.3).then(|| rng.r#gen()), rng.gen_bool(0.3).then(|| rng.r#gen())),
        offset: (rng.gen_bool(0.3).then(|| rng.r#gen()), rng.gen_bool(0.3).then(|| rng.r#gen())),
      });
      Etching {
        divisibility: rng.gen_bool(0.5).then(|| rng.gen_range(0..=38)),
        premine,
        rune: rng.gen_bool(0.7).then(|| Rune(big(&mut rng))),
        spacers: rng.gen_bool(0.4).then(|| rng.gen_range(0..=Etching::MAX_SPACERS)),
        symbol: rng.gen_bool(0.4).then(|| ['$', '¢', 'A', '\u{1F9FF}'][rng.gen_range(0..4)]),
        terms,
        turbo: rng.gen_bool(0.3),
      }
    });
    let stone = Runestone {
      edicts,
      etching,
      mint: rng.gen_bool(0.3).then(|| RuneId { block: rng.gen_range(1..100), tx: rng.gen_range(0..10) }),
      pointer: rng.gen_bool(0.3).then(|| rng.gen_range(0..n_out as u32)),
    };
    let tx = tx_with(stone.encipher(), n_out, 0);
    writeln!(f, "{}", json!({"f": "roundtrip", "stone": stone_json(&stone), "back": decipher(&tx)}))?;
  }
  Ok(())
}
