//! Scenario runner: drives the real `ord::Index` against the mock node and
//! records the trace (Block/Pop inputs, Update results, projected State
//! observations, protocol events from the guarded tracer).

use {
  crate::{node::Node, scenario::*},
  anyhow::{Context, Result, anyhow},
  bitcoin::OutPoint,
  ord::{Index, index::event::Event, options::Options, settings::Settings},
  ordinals::{Charm, Rune, Sat, SatPoint},
  serde_json::{Value, json},
  std::{
    collections::{BTreeMap, BTreeSet},
    path::{Path, PathBuf},
    sync::mpsc,
    time::Duration,
  },
};

pub struct Opts {
  /// log the full projected state after every update
  pub state_after_update: bool,
  /// attach an event receiver and log Events after every update
  pub events: bool,
  /// include the opaque dump digest in State events
  pub digest: bool,
  /// watchdog for a single update() call
  pub update_timeout: Duration,
  /// log protocol events from the tracer
  pub protocol: bool,
  /// extra lookups (find / find_range / by number ...) in State events
  pub lookups: bool,
  /// State steps log only {count, indexed, digest} (protocol family)
  pub digest_only: bool,
}

impl Default for Opts {
  fn default() -> Self {
    Self {
      state_after_update: true,
      events: false,
      digest: false,
      update_timeout: Duration::from_secs(20),
      protocol: false,
      lookups: true,
      digest_only: false,
    }
  }
}

pub fn settings_for(
  sc: &Scenario,
  rpc_url: &str,
  cookie: &Path,
  dir: &Path,
  extra: &[String],
) -> Result<Settings> {
  let mut args: Vec<String> = vec![
    "ord".into(),
    "--chain".into(),
    sc.chain.clone(),
    "--bitcoin-rpc-url".into(),
    rpc_url.into(),
    "--cookie-file".into(),
    cookie.display().to_string(),
    "--data-dir".into(),
    dir.display().to_string(),
    "--index".into(),
    dir.join("index.redb").display().to_string(),
    "--index-cache-size".into(),
    "33554432".into(),
  ];
  for f in &sc.flags {
    match f.as_str() {
      "sats" => args.push("--index-sats".into()),
      "runes" => args.push("--index-runes".into()),
      "addresses" => args.push("--index-addresses".into()),
      "transactions" => args.push("--index-transactions".into()),
      "noinscriptions" => args.push("--no-index-inscriptions".into()),
      other => return Err(anyhow!("unknown flag {other}")),
    }
  }
  if let Some(n) = sc.commit_interval {
    args.extend(["--commit-interval".into(), n.to_string()]);
  }
  if let Some(n) = sc.savepoint_interval {
    args.extend(["--savepoint-interval".into(), n.to_string()]);
  }
  if let Some(n) = sc.max_savepoints {
    args.extend(["--max-savepoints".into(), n.to_string()]);
  }
  args.extend(extra.iter().cloned());
  use clap::Parser;
  let options = Options::try_parse_from(args)?;
  Settings::merge(options, BTreeMap::new())
}

pub struct Runner {
  pub sc: Scenario,
  pub node: Node,
  pub dir: tempfile::TempDir,
  pub index: Option<Index>,
  pub events_rx: Option<tokio::sync::mpsc::Receiver<Event>>,
  pub out: Vec<Value>,
  pub opts: Opts,
  /// every outpoint label the scenario ever created, in creation order
  pub outpoints: Vec<String>,
  pub out_meta: BTreeMap<String, (u64, String)>,
  /// every inscription label, in scenario order
  pub insc_labels: Vec<String>,
  pub scripts: BTreeSet<String>,
  seqno: u64,
  pub hung: bool,
  /// ordinal of the next update (a crash step counts as one)
  pub update_no: u64,
}

fn sp_json(node: &Node, sp: SatPoint) -> Value {
  if sp.outpoint == ord::unbound_outpoint() {
    // offsets at the unbound pseudo-output are counters, not sats
    return json!(["unbound", sp.offset]);
  }
  json!([node.outpoint_label(sp.outpoint), units(sp.offset)])
}

static NONUNIT: std::sync::Mutex<Vec<u64>> = std::sync::Mutex::new(Vec::new());

/// sats -> units; a value that is not a multiple of K is recorded and reported in the State event
pub fn units(sats: u64) -> Value {
  if sats % K != 0 {
    NONUNIT.lock().unwrap().push(sats);
  }
  json!(sats / K)
}

impl Runner {
  pub fn new(sc: Scenario, opts: Opts) -> Result<Self> {
    let mut node = Node::new(&sc.chain);
    let g = genesis_txid(&sc.chain);
    node.txids.insert("g".into(), g);
    node.tx_labels.insert(g, "g".into());
    let dir = tempfile::TempDir::new()?;
    Ok(Self {
      sc,
      node,
      dir,
      index: None,
      events_rx: None,
      out: Vec::new(),
      opts,
      outpoints: vec!["g:0".to_string()],
      out_meta: BTreeMap::new(),
      insc_labels: Vec::new(),
      scripts: BTreeSet::new(),
      seqno: 0,
      hung: false,
      update_no: 0,
    })
  }

  pub fn emit(&mut self, mut v: Value) {
    v.as_object_mut()
      .unwrap()
      .insert("n".into(), json!(self.seqno));
    self.seqno += 1;
    self.out.push(v);
  }

  pub fn settings(&self, dir: &Path) -> Result<Settings> {
    settings_for(
      &self.sc,
      &self.node.handle.url(),
      &self.node.handle.cookie_file(),
      dir,
      &[],
    )
  }

  pub fn open(&mut self) -> Result<()> {
    let settings = self.settings(self.dir.path())?;
    let index = if self.opts.events {
      let (tx, rx) = tokio::sync::mpsc::channel(1 << 20);
      self.events_rx = Some(rx);
      Index::open_with_event_sender(&settings, Some(tx))?
    } else {
      Index::open(&settings)?
    };
    self.index = Some(index);
    Ok(())
  }

  pub fn index(&self) -> &Index {
    self.index.as_ref().expect("index open")
  }

  pub fn index_dir(&self) -> PathBuf {
    self.dir.path().to_path_buf()
  }

  fn flags_json(&self) -> Value {
    json!({
      "sats": self.sc.flags.iter().any(|f| f == "sats"),
      "runes": self.sc.flags.iter().any(|f| f == "runes"),
      "addresses": self.sc.flags.iter().any(|f| f == "addresses"),
      "transactions": self.sc.flags.iter().any(|f| f == "transactions"),
      "inscriptions": !self.sc.flags.iter().any(|f| f == "noinscriptions"),
    })
  }

  pub fn reset_event(&mut self) {
    let jubilee = match self.sc.chain.as_str() {
      "regtest" => 110,
      "signet" => 175392,
      "mainnet" => 824544,
      "testnet" => 2544192,
      _ => 0,
    };
    let flags = self.flags_json();
    let mut sorted_flags = self.sc.flags.clone();
    sorted_flags.sort();
    let flag_key = format!("{}:{}", self.sc.chain, sorted_flags.join("+"));
    let ev = json!({
      "e": "Reset",
      "name": self.sc.name,
      "chain": self.sc.chain,
      "jubilee": jubilee,
      "firstInscription": match self.sc.chain.as_str() {
        "signet" => 112402,
        "mainnet" => 767430,
        "testnet" => 2413343,
        _ => 0,
      },
      "subsidy": SUBSIDY_UNITS,
      "flags": flags,
      "events": self.opts.events,
      "flagKey": flag_key,
      "pair": self.sc.name.split_once('#').map(|(b, _)| b.to_string()).unwrap_or_default(),
      "role": self.sc.name.split_once('#').map(|(_, r)| r.to_string()).unwrap_or_default(),
      "commitInterval": self.sc.commit_interval.unwrap_or(5000),
      "savepointInterval": self.sc.savepoint_interval.unwrap_or(10),
      "maxSavepoints": self.sc.max_savepoints.unwrap_or(2),
    });
    self.emit(ev);
  }

  pub fn run(&mut self) -> Result<()> {
    self.reset_event();
    self.open()?;
    let steps = self.sc.steps.clone();
    for step in &steps {
      if self.hung {
        break;
      }
      self.step(step)?;
    }
    Ok(())
  }

  pub fn step(&mut self, step: &Step) -> Result<()> {
    match step {
      Step::Block(b) => {
        let height = self.node.height() + 1;
        self.node.push_block(b);
        let mut ev = serde_json::to_value(b)?;
        let o = ev.as_object_mut().unwrap();
        o.insert("e".into(), json!("Block"));
        o.insert("h".into(), json!(height));
        self.emit(ev);
        let cb = format!("c{}", b.dup.as_ref().unwrap_or(&b.id));
        for (i, o) in b.cb.iter().enumerate() {
          self.note_out(format!("{cb}:{i}"), o);
        }
        for t in &b.txs {
          for (i, o) in t.outs.iter().enumerate() {
            self.note_out(format!("{}:{i}", t.label), o);
          }
          for e in &t.envs {
            self.insc_labels.push(e.label.clone());
          }
        }
      }
      Step::Skip { prefix, n, keep } => {
        let first = self.node.height() + 1;
        let mut kept = Vec::new();
        for i in 0..*n {
          let b = BlockSpec {
            id: format!("{prefix}{i}"),
            txs: Vec::new(),
            cb: vec![OutSpec { v: SUBSIDY_UNITS, t: "tr".into(), s: (i % 4) as u32 }], ..Default::default() };
          self.node.push_block(&b);
          if i + keep >= *n {
            let label = format!("c{prefix}{i}:0");
            self.note_out(label.clone(), &b.cb[0]);
            kept.push(json!({"label": label, "h": first + i, "s": i % 4}));
          }
        }
        self.emit(json!({"e": "Skip", "k": n, "first": first, "outs": kept}));
      }
      Step::Pop { n } => {
        self.node.pop(*n);
        self.emit(json!({"e": "Pop", "k": n}));
      }
      Step::Update => {
        self.update()?;
        if self.opts.state_after_update && !self.hung {
          self.state()?;
        }
      }
      Step::Reopen => {
        self.index = None;
        self.open()?;
        let count = self.index().block_count()?;
        self.emit(json!({"e": "Reopen", "count": count}));
      }
      Step::State => self.state()?,
      Step::Fresh { limit } => self.fresh(*limit)?,
      Step::Crash { point, occ } => self.crash(point, *occ)?,
    }
    Ok(())
  }

  fn note_out(&mut self, label: String, o: &OutSpec) {
    let t = if o.t == "stone" { "opret" } else { &o.t };
    let script = format!("{t}:{}", o.s);
    self.scripts.insert(script.clone());
    if !self.out_meta.contains_key(&label) {
      self.outpoints.push(label.clone());
    }
    self.out_meta.insert(label, (o.v, script));
  }

  pub fn chain_ids(&self) -> Vec<String> {
    self.node.chain.clone()
  }

  /// block ids of the blocks in the index (above genesis)
  pub fn indexed_ids(&self) -> Result<Vec<String>> {
    let index = self.index();
    let count = index.block_count()?;
    let mut ids = Vec::new();
    for h in 1..count {
      let hash = index
        .block_hash(Some(h))?
        .ok_or_else(|| anyhow!("missing hash at {h}"))?;
      ids.push(self.node.block_label(&hash));
    }
    Ok(ids)
  }

  pub fn update(&mut self) -> Result<()> {
    if self.opts.protocol {
      ord::verif::start();
    }
    // run update on a helper thread so that a hang is data, not a tool failure
    let index = self.index.take().unwrap();
    let (tx, rx) = mpsc::channel();
    let handle = std::thread::spawn(move || {
      let r = std::panic::catch_unwind(std::panic::AssertUnwindSafe(|| index.update()));
      let res = match r {
        Ok(Ok(())) => ("ok".to_string(), String::new()),
        Ok(Err(e)) => {
          let text = e.to_string();
          if text.contains("unrecoverable reorg") {
            ("unrecoverable".to_string(), text)
          } else {
            ("error".to_string(), text)
          }
        }
        Err(p) => {
          let text = p
            .downcast_ref::<String>()
            .cloned()
            .or_else(|| p.downcast_ref::<&str>().map(|s| s.to_string()))
            .unwrap_or_default();
          ("panic".to_string(), text)
        }
      };
      let _ = tx.send((index, res));
    });
    // the watchdog must not mistake a slow machine for a hang: the allowance grows with the system load
    // (16 cores; at load 8 or below it is the configured timeout, at load 96 twelve times that)
    let started = std::time::Instant::now();
    let outcome = loop {
      match rx.recv_timeout(Duration::from_millis(500)) {
        Ok(x) => break Ok(x),
        Err(mpsc::RecvTimeoutError::Disconnected) => break Err(()),
        Err(mpsc::RecvTimeoutError::Timeout) => {
          let load = std::fs::read_to_string("/proc/loadavg")
            .ok()
            .and_then(|s| s.split_whitespace().next().and_then(|x| x.parse::<f64>().ok()))
            .unwrap_or(1.0);
          let allowance = self.opts.update_timeout.mul_f64((load / 8.0).clamp(1.0, 12.0));
          if started.elapsed() > allowance {
            break Err(());
          }
        }
      }
    };
    match outcome {
      Ok((index, (result, text))) => {
        let _ = handle.join();
        self.index = Some(index);
        let protocol = if self.opts.protocol {
          ord::verif::take()
        } else {
          Vec::new()
        };
        for p in protocol {
          let mut p = p;
          if let Some(hash) = p.get("hash").and_then(|h| h.as_str()).map(|s| s.to_string()) {
            let id = hash
              .parse()
              .map(|h| self.node.block_label(&h))
              .unwrap_or_default();
            p.as_object_mut().unwrap().insert("id".into(), json!(id));
            p.as_object_mut().unwrap().remove("hash");
          }
          self.emit(p);
        }
        let count = self.index().block_count()?;
        let lists = self.opts.protocol || self.opts.digest_only;
        let indexed = if lists { self.indexed_ids()? } else { Vec::new() };
        let flagged = self.index().verif_unrecoverably_reorged();
        let chain = if lists { self.chain_ids() } else { Vec::new() };
        let k = self.update_no;
        self.update_no += 1;
        self.emit(json!({"e": "Update", "result": result, "text": text, "count": count,
          "indexed": indexed, "chain": chain, "flagged": flagged, "k": k}));
      }
      Err(_) => {
        // the update thread is left behind; the process exits after the trace is written
        self.hung = true;
        let protocol = if self.opts.protocol {
          ord::verif::take()
        } else {
          Vec::new()
        };
        let tail: Vec<Value> = protocol.iter().rev().take(6).rev().cloned().collect();
        let chain = if self.opts.protocol || self.opts.digest_only { self.chain_ids() } else { Vec::new() };
        self.emit(json!({"e": "Update", "result": "hang", "text": "", "count": 0,
          "indexed": [], "chain": chain, "flagged": false, "tail": tail}));
      }
    }
    if self.opts.events && !self.hung {
      self.log_events()?;
    }
    Ok(())
  }

  fn log_events(&mut self) -> Result<()> {
    let mut evs = Vec::new();
    if let Some(rx) = self.events_rx.as_mut() {
      while let Ok(e) = rx.try_recv() {
        evs.push(e);
      }
    }
    let node = &self.node;
    let rid = |id: ordinals::RuneId| json!([id.block, id.tx]);
    let list: Vec<Value> = evs
      .into_iter()
      .map(|e| match e {
        Event::InscriptionCreated {
          block_height,
          charms,
          inscription_id,
          location,
          parent_inscription_ids,
          sequence_number,
        } => json!({"k": "created", "h": block_height, "charms": charm_names(charms),
          "i": node.inscription_label(inscription_id),
          "loc": location.map(|l| sp_json(node, l)).unwrap_or(json!([])),
          "parents": parent_inscription_ids.iter().map(|p| node.inscription_label(*p)).collect::<Vec<_>>(),
          "seq": sequence_number}),
        Event::InscriptionTransferred {
          block_height,
          inscription_id,
          new_location,
          old_location,
          sequence_number,
        } => json!({"k": "transferred", "h": block_height, "i": node.inscription_label(inscription_id),
          "new": sp_json(node, new_location), "old": sp_json(node, old_location), "seq": sequence_number}),
        Event::RuneBurned {
          amount,
          block_height,
          rune_id,
          txid,
        } => json!({"k": "burned", "h": block_height, "amount": amount as u64, "rune": rid(rune_id),
          "tx": node.tx_labels.get(&txid).cloned().unwrap_or_default()}),
        Event::RuneEtched {
          block_height,
          rune_id,
          txid,
        } => json!({"k": "etched", "h": block_height, "rune": rid(rune_id),
          "tx": node.tx_labels.get(&txid).cloned().unwrap_or_default()}),
        Event::RuneMinted {
          amount,
          block_height,
          rune_id,
          txid,
        } => json!({"k": "minted", "h": block_height, "amount": amount as u64, "rune": rid(rune_id),
          "tx": node.tx_labels.get(&txid).cloned().unwrap_or_default()}),
        Event::RuneTransferred {
          amount,
          block_height,
          outpoint,
          rune_id,
          txid,
        } => json!({"k": "rtransferred", "h": block_height, "amount": amount as u64, "rune": rid(rune_id),
          "out": node.outpoint_label(outpoint),
          "tx": node.tx_labels.get(&txid).cloned().unwrap_or_default()}),
      })
      .collect();
    self.emit(json!({"e": "Events", "list": list}));
    Ok(())
  }

  /// the digest of everything in the dump except timing and commit bookkeeping
  pub fn digest_of(index: &Index) -> Result<(String, BTreeMap<String, String>)> {
    use std::hash::{Hash, Hasher};
    let dump = index.verif_dump()?;
    let mut per_table = BTreeMap::new();
    let mut all = std::collections::hash_map::DefaultHasher::new();
    for (table, rows) in &dump {
      if table == "WRITE_TRANSACTION_STARTING_BLOCK_COUNT_TO_TIMESTAMP" {
        continue;
      }
      let mut h = std::collections::hash_map::DefaultHasher::new();
      for (k, v) in rows {
        if table == "STATISTIC_TO_COUNT" {
          // Commits = 2, InitialSyncTime = 9, LastSavepointHeight = 17
          if k == "2" || k == "9" || k == "17" {
            continue;
          }
        }
        k.hash(&mut h);
        v.hash(&mut h);
      }
      let d = format!("{:016x}", h.finish());
      table.hash(&mut all);
      d.hash(&mut all);
      per_table.insert(table.clone(), d);
    }
    Ok((format!("{:016x}", all.finish()), per_table))
  }

  pub fn fresh(&mut self, limit: Option<u32>) -> Result<()> {
    let dir = tempfile::TempDir::new()?;
    let mut sc = self.sc.clone();
    // default schedule: one update, default commit interval
    sc.commit_interval = None;
    let extra: Vec<String> = match limit {
      Some(n) => vec!["--height-limit".into(), n.to_string()],
      None => Vec::new(),
    };
    let settings = settings_for(
      &sc,
      &self.node.handle.url(),
      &self.node.handle.cookie_file(),
      dir.path(),
      &extra,
    )?;
    let index = Index::open(&settings)?;
    index.update().context("fresh index update")?;
    let (digest, tables) = Self::digest_of(&index)?;
    let mut chain = self.chain_ids();
    if let Some(n) = limit {
      chain.truncate((n as usize).saturating_sub(1));
    }
    let count = index.block_count()?;
    self.emit(json!({"e": "Fresh", "chain": chain, "count": count, "digest": digest, "tables": tables}));
    Ok(())
  }

  pub fn crash(&mut self, point: &str, occ: u64) -> Result<()> {
    // close our handle, run update in a child that aborts at the crash point
    self.update_no += 1;
    let before = self.index().block_count()?;
    self.index = None;
    let exe = std::env::current_exe()?;
    let sc_path = self.dir.path().join("crash-scenario.json");
    std::fs::write(&sc_path, serde_json::to_string(&self.sc)?)?;
    let mut cmd = std::process::Command::new(exe);
    cmd
      .arg("crash-child")
      .arg(&sc_path)
      .arg(self.node.handle.url())
      .arg(self.node.handle.cookie_file())
      .arg(self.dir.path())
      .stdout(std::process::Stdio::piped())
      .stderr(std::process::Stdio::piped());
    let (stdout, stderr_text, crashed) = if point == "kill" {
      // no crash point: the child is killed (SIGKILL) wherever it is -- possibly inside a redb commit --
      // occ % 1000 milliseconds after it reported its (occ / 1000)-th commit
      use std::io::{BufRead, Read};
      let mut child = cmd.spawn()?;
      let out = child.stdout.take().unwrap();
      let mut err = child.stderr.take().unwrap();
      let (tx, rx) = mpsc::channel::<String>();
      let reader = std::thread::spawn(move || {
        let mut all = String::new();
        for line in std::io::BufReader::new(out).lines().map_while(|l| l.ok()) {
          let _ = tx.send(line.clone());
          all.push_str(&line);
          all.push('\n');
        }
        all
      });
      let err_reader = std::thread::spawn(move || {
        let mut s = String::new();
        let _ = err.read_to_string(&mut s);
        s
      });
      let want = occ / 1000;
      let mut seen = 0;
      let t0 = std::time::Instant::now();
      while seen < want && t0.elapsed() < Duration::from_secs(60) {
        match rx.recv_timeout(Duration::from_millis(50)) {
          Ok(line) => {
            if line.contains("\"CommitMain\"") {
              seen += 1;
            }
          }
          Err(mpsc::RecvTimeoutError::Timeout) => {
            if child.try_wait()?.is_some() {
              break;
            }
          }
          Err(_) => break,
        }
      }
      std::thread::sleep(Duration::from_millis(occ % 1000));
      let finished = child.try_wait()?.map(|s| s.success()).unwrap_or(false);
      let _ = child.kill();
      let _ = child.wait();
      (reader.join().unwrap_or_default(), err_reader.join().unwrap_or_default(), !finished)
    } else {
      let status = cmd.env("ORD_VERIF_CRASH", format!("{point}:{occ}")).output()?;
      (String::from_utf8_lossy(&status.stdout).to_string(), String::from_utf8_lossy(&status.stderr).to_string(), !status.status.success())
    };
    // the child prints the protocol events it saw as ndjson on stdout before the abort;
    // `durable` is the sequence of block counts made durable by its commits and rollbacks
    let mut durable = Vec::new();
    for line in stdout.lines() {
      if let Ok(mut v) = serde_json::from_str::<Value>(line) {
        if v["e"] == "CommitMain" {
          durable.push(v["height"].clone());
        }
        if v["e"] == "Rollback" {
          durable.push(v["count"].clone());
        }
        if self.opts.protocol && v.get("e").is_some() {
          if let Some(hash) = v.get("hash").and_then(|h| h.as_str()).map(|s| s.to_string()) {
            let id = hash.parse().map(|h| self.node.block_label(&h)).unwrap_or_default();
            v.as_object_mut().unwrap().insert("id".into(), json!(id));
            v.as_object_mut().unwrap().remove("hash");
          }
          self.emit(v);
        }
      }
    }
    self.open()?;
    let count = self.index().block_count()?;
    let indexed = self.indexed_ids()?;
    self.emit(json!({"e": "Crash", "point": point, "occ": occ, "crashed": crashed,
      "count": count, "indexed": indexed, "chain": self.chain_ids(), "durable": durable, "before": before,
      "stderr": stderr_text.lines().last().unwrap_or("").to_string()}));
    // the content after reopening, and a from-scratch index of the same prefix
    self.state()?;
    self.fresh(Some(count))?;
    Ok(())
  }

  pub fn state(&mut self) -> Result<()> {
    if self.opts.digest_only {
      let (digest, tables) = Self::digest_of(self.index())?;
      let count = self.index().block_count()?;
      let indexed = self.indexed_ids()?;
      self.emit(json!({"e": "Digest", "count": count, "indexed": indexed, "digest": digest, "tables": tables}));
      return Ok(());
    }
    let ev = self.project()?;
    self.emit(ev);
    Ok(())
  }

  pub fn project(&self) -> Result<Value> {
    NONUNIT.lock().unwrap().clear();
    let index = self.index();
    let node = &self.node;
    let count = index.block_count()?;
    let has_sats = index.has_sat_index();
    let has_insc = index.has_inscription_index();
    let has_runes = index.has_rune_index();
    let has_addr = index.has_address_index();

    // outputs
    let mut outs = serde_json::Map::new();
    let stored: BTreeSet<OutPoint> = index.verif_utxo_outpoints()?.into_iter().collect();
    let mut known = BTreeSet::new();
    let rune_balances: BTreeMap<OutPoint, Vec<(ordinals::RuneId, u128)>> = if has_runes {
      index.get_rune_balances()?.into_iter().collect()
    } else {
      BTreeMap::new()
    };
    let mut labels: Vec<String> = self.outpoints.clone();
    labels.push("lost".into());
    labels.push("unbound".into());
    for label in &labels {
      let op = match label.as_str() {
        "lost" => OutPoint::null(),
        "unbound" => ord::unbound_outpoint(),
        l => node.outpoint(l),
      };
      known.insert(op);
      let Some(u) = index.verif_utxo(op)? else {
        // spent or unknown; rune balances on an output without entry are still reported
        if let Some(b) = rune_balances.get(&op) {
          outs.insert(
            label.clone(),
            json!({"absent": true, "runes": b.iter().map(|(id, a)| json!([id.block, id.tx, *a as u64])).collect::<Vec<_>>()}),
          );
        }
        continue;
      };
      let mut o = serde_json::Map::new();
      o.insert("v".into(), units(u.value));
      if let Some(r) = &u.ranges {
        o.insert(
          "r".into(),
          json!(r.iter().map(|(a, b)| json!([units(*a), units(*b)])).collect::<Vec<_>>()),
        );
        // the public list() must agree with the stored entry
        let listed = index.list(op)?;
        o.insert("listOk".into(), json!(listed.as_ref() == Some(r)));
      }
      if let Some(s) = &u.script {
        let mut name = String::from("?");
        for sid in &self.scripts {
          let (t, n) = sid.split_once(':').unwrap();
          if crate::node::script_for(t, n.parse().unwrap()).as_bytes() == &s[..] {
            name = sid.clone();
          }
        }
        if s.is_empty() {
          name = "empty:0".into();
        } else if s.len() >= 2 && s[0] == 0x6a && s[1] == 0x5d {
          name = "stone".into();
        }
        o.insert("script".into(), json!(name));
      }
      if let Some(ins) = &u.inscriptions {
        let with_sp = index
          .get_inscriptions_on_output_with_satpoints(op)?
          .unwrap_or_default();
        let list: Vec<Value> = with_sp
          .iter()
          .map(|(sp, id)| json!([node.inscription_label(*id), sp_json(node, *sp)[1]]))
          .collect();
        o.insert("ins".into(), json!(list));
        o.insert("insRaw".into(), json!(ins.len()));
      }
      if has_runes {
        let b = rune_balances.get(&op).cloned().unwrap_or_default();
        o.insert(
          "runes".into(),
          json!(b.iter().map(|(id, a)| json!([id.block, id.tx, *a as u64])).collect::<Vec<_>>()),
        );
      }
      outs.insert(label.clone(), Value::Object(o));
    }
    let unknown_outs: Vec<String> = stored
      .iter()
      .filter(|o| !known.contains(o))
      .map(|o| node.outpoint_label(*o))
      .collect();
    let unknown_rune_outs: Vec<String> = rune_balances
      .keys()
      .filter(|o| !known.contains(o))
      .map(|o| node.outpoint_label(*o))
      .collect();

    // inscriptions
    let mut insc = Vec::new();
    if has_insc {
      for label in &self.insc_labels {
        let id = node.inscription_id(label);
        let Some(entry) = index.get_inscription_entry(id)? else {
          continue;
        };
        let sp = index.get_inscription_satpoint_by_id(id)?;
        let (children, _) =
          index.get_children_by_sequence_number_paginated(entry.sequence_number, 10_000, 0)?;
        let (parents, _) =
          index.get_parents_by_sequence_number_paginated(entry.parents.clone(), 10_000, 0)?;
        let mut rec = json!({
          "l": label,
          "seq": entry.sequence_number,
          "num": entry.inscription_number,
          "tx": node.tx_labels.get(&entry.id.txid).cloned().unwrap_or_default(),
          "idx": entry.id.index,
          "charms": charm_names(entry.charms),
          "h": entry.height,
          "hidden": entry.hidden,
          "feeq": entry.fee / K,
          "feer": entry.fee % K,
          "sp": sp.map(|s| sp_json(node, s)).unwrap_or(json!([])),
          "parents": parents.iter().map(|p| node.inscription_label(*p)).collect::<Vec<_>>(),
          "children": children.iter().map(|p| node.inscription_label(*p)).collect::<Vec<_>>(),
          "idOk": entry.id == id,
          "effCharms": index.verif_effective_charms(id)?.map(charm_names).unwrap_or_default(),
        });
        let o = rec.as_object_mut().unwrap();
        match entry.sat {
          Some(s) => {
            o.insert("sat".into(), units(s.n()));
            if has_sats && self.opts.lookups {
              let f = index.find(s)?;
              o.insert("find".into(), f.map(|s| sp_json(node, s)).unwrap_or(json!([])));
              let ids = index.get_inscription_ids_by_sat(s)?;
              o.insert(
                "onSat".into(),
                json!(ids.iter().map(|i| node.inscription_label(*i)).collect::<Vec<_>>()),
              );
            }
          }
          None => {
            o.insert("sat".into(), json!(-1));
          }
        }
        insc.push(rec);
      }
      insc.sort_by_key(|r| r["seq"].as_u64());
    }
    let mut insc_idx = serde_json::Map::new();
    for (k, r) in insc.iter().enumerate() {
      insc_idx.insert(r["l"].as_str().unwrap().to_string(), json!(k + 1));
    }
    // every stored range sorted by start, and the order in which outputs are listed
    let mut sorted: Vec<(u64, u64, String)> = Vec::new();
    let mut out_order: Vec<String> = Vec::new();
    for (label, o) in outs.iter() {
      if o.get("absent").is_some() {
        continue;
      }
      out_order.push(label.clone());
      if let Some(r) = o.get("r").and_then(|r| r.as_array()) {
        for pair in r {
          let (a, b) = (pair[0].as_u64().unwrap(), pair[1].as_u64().unwrap());
          if b > a {
            sorted.push((a, b, label.clone()));
          }
        }
      }
    }
    sorted.sort();
    let sorted: Vec<Value> = sorted.into_iter().map(|(a, b, l)| json!([a, b, l])).collect();
    let dump = index.verif_dump()?;
    let stat = |k: &str| -> u64 {
      dump["STATISTIC_TO_COUNT"]
        .iter()
        .find(|(key, _)| key == k)
        .map(|(_, v)| v.parse().unwrap())
        .unwrap_or(0)
    };
    let n_entries = dump["SEQUENCE_NUMBER_TO_INSCRIPTION_ENTRY"].len();
    let n_ids = dump["INSCRIPTION_ID_TO_SEQUENCE_NUMBER"].len();
    let n_numbers = dump["INSCRIPTION_NUMBER_TO_SEQUENCE_NUMBER"].len();
    let n_satpoints = dump["SEQUENCE_NUMBER_TO_SATPOINT"].len();

    // sequence-number table rows: [key, entry.sequence_number, label of entry.id]
    let mut by_seq = Vec::new();
    for (k, e) in index.verif_inscription_entries()? {
      by_seq.push(json!([k, e.sequence_number, node.inscription_label(e.id)]));
    }

    // number lookups via the number table rows
    let mut by_num = Vec::new();
    for (k, v) in &dump["INSCRIPTION_NUMBER_TO_SEQUENCE_NUMBER"] {
      by_num.push(json!([k.parse::<i64>().unwrap(), v.parse::<u64>().unwrap()]));
    }

    // inscriptions per block
    let mut in_block = Vec::new();
    if has_insc {
      for h in 0..count {
        let ids = index.get_inscriptions_in_block(h)?;
        if !ids.is_empty() {
          in_block.push(json!([h, ids.iter().map(|i| node.inscription_label(*i)).collect::<Vec<_>>()]));
        }
      }
    }

    // latest children of collections
    let mut latest = Vec::new();
    for (k, v) in &dump["COLLECTION_SEQUENCE_NUMBER_TO_LATEST_CHILD_SEQUENCE_NUMBER"] {
      latest.push(json!([k.parse::<u64>().unwrap(), v.parse::<u64>().unwrap()]));
    }

    // runes
    let mut runes = Vec::new();
    if has_runes {
      for (id, e) in index.runes()? {
        let t = e.terms;
        let opt = |x: Option<u128>| x.map(|v| json!(clamp(v))).unwrap_or(json!(-1));
        let opt64 = |x: Option<u64>| x.map(|v| json!(clamp(v.into()))).unwrap_or(json!(-1));
        let by_name = index.rune(e.spaced_rune.rune)?.map(|(i, _, _)| json!([i.block, i.tx]));
        let etching_of = index.get_etching(e.etching)?.map(|s| s.rune.to_string());
        runes.push(json!({
          "id": [id.block, id.tx],
          "name": e.spaced_rune.rune.to_string(),
          "num": e.number,
          "premine": clamp(e.premine),
          "mints": clamp(e.mints),
          "burned": clamp(e.burned),
          "block": e.block,
          "etx": node.tx_labels.get(&e.etching).cloned().unwrap_or_default(),
          "hasTerms": t.is_some(),
          "cap": opt(t.and_then(|t| t.cap)),
          "amount": opt(t.and_then(|t| t.amount)),
          "hs": opt64(t.and_then(|t| t.height.0)),
          "he": opt64(t.and_then(|t| t.height.1)),
          "os": opt64(t.and_then(|t| t.offset.0)),
          "oe": opt64(t.and_then(|t| t.offset.1)),
          "res": if e.spaced_rune.rune.is_reserved() {
            let d = e.spaced_rune.rune.0 - Rune::reserved(0, 0).0;
            json!([(d >> 32) as u64, (d & 0xffff_ffff) as u64])
          } else { json!([]) },
          "byName": by_name.unwrap_or(json!([])),
          "etchingOf": etching_of.unwrap_or_default(),
        }));
      }
    }

    // rare sats
    let mut rare = Vec::new();
    if has_sats {
      for (sat, sp) in index.rare_sat_satpoints()? {
        rare.push(json!([units(sat.n()), node.outpoint_label(sp.outpoint), units(sp.offset)]));
      }
    }

    // address rows
    let mut addr = serde_json::Map::new();
    if has_addr {
      for sid in &self.scripts {
        let (t, n) = sid.split_once(':').unwrap();
        if t == "opret" || t == "empty" {
          continue;
        }
        let script = crate::node::script_for(t, n.parse().unwrap());
        let network = match self.sc.chain.as_str() {
          "regtest" => bitcoin::Network::Regtest,
          "testnet4" => bitcoin::Network::Testnet4,
          "signet" => bitcoin::Network::Signet,
          _ => bitcoin::Network::Bitcoin,
        };
        let address = bitcoin::Address::from_script(&script, network)?;
        let mut rows: Vec<String> = index
          .get_address_info(&address)?
          .into_iter()
          .map(|o| node.outpoint_label(o))
          .collect();
        rows.sort();
        addr.insert(sid.clone(), json!(rows));
      }
    }
    // raw multimap rows [script name, outpoint label]
    let mut addr_rows = Vec::new();
    if has_addr {
      let parse_bytes = |s: &str| -> Vec<u8> {
        s.trim_matches(|c| c == '[' || c == ']')
          .split(',')
          .filter_map(|b| b.trim().parse::<u8>().ok())
          .collect()
      };
      for (k, v) in &dump["SCRIPT_PUBKEY_TO_OUTPOINT"] {
        let script = parse_bytes(k);
        let mut name = String::from("?");
        if script.is_empty() {
          name = "empty:0".into();
        } else if script.len() >= 2 && script[0] == 0x6a && script[1] == 0x5d {
          name = "stone".into();
        }
        for sid in &self.scripts {
          let (t, n) = sid.split_once(':').unwrap();
          if crate::node::script_for(t, n.parse().unwrap()).as_bytes() == &script[..] {
            name = sid.clone();
          }
        }
        for val in v.split("],[") {
          let bytes = parse_bytes(val);
          if bytes.len() == 36 {
            let txid = <bitcoin::Txid as bitcoin::hashes::Hash>::from_slice(&bytes[0..32]).unwrap();
            let vout = u32::from_le_bytes(bytes[32..36].try_into().unwrap());
            addr_rows.push(json!([name, node.outpoint_label(OutPoint { txid, vout })]));
          }
        }
      }
    }

    // lookups on sats (C02)
    let mut finds = Vec::new();
    let mut franges = Vec::new();
    if has_sats && self.opts.lookups {
      let supply_units = (count as u64) * SUBSIDY_UNITS;
      let mut probes: BTreeSet<u64> = BTreeSet::new();
      for (_label, o) in outs.iter() {
        if let Some(r) = o.get("r").and_then(|r| r.as_array()) {
          for pair in r {
            if let (Some(a), Some(b)) = (pair[0].as_u64(), pair[1].as_u64()) {
              probes.insert(a);
              if b > 0 {
                probes.insert(b - 1);
              }
            }
          }
        }
      }
      probes.insert(supply_units);
      probes.insert(supply_units + SUBSIDY_UNITS - 1);
      if supply_units > 0 {
        probes.insert(supply_units - 1);
      }
      let probes: Vec<u64> = probes.into_iter().collect();
      let stride = (probes.len() / 40).max(1);
      for (i, p) in probes.iter().enumerate() {
        if i % stride != 0 && *p + 1 < supply_units {
          continue;
        }
        let f = index.find(Sat(*p * K))?;
        finds.push(json!([p, f.map(|s| sp_json(node, s)).unwrap_or(json!([]))]));
      }
      // a few ranges
      let mut k = 0u64;
      while k < 6 && supply_units > 0 {
        let a = (k * 7919 * 13) % supply_units;
        let len = 1 + (k * 104729) % (2 * SUBSIDY_UNITS);
        let b = a + len;
        k += 1;
        let r = index.find_range(Sat(a * K), Sat(b * K))?;
        let found = r.is_some();
        let pieces: Vec<Value> = r
          .unwrap_or_default()
          .iter()
          .map(|f| json!([units(f.start), units(f.size), node.outpoint_label(f.satpoint.outpoint), units(f.satpoint.offset)]))
          .collect();
        franges.push(json!([a, b, found, pieces]));
      }
    }

    let mut ev = json!({
      "e": "State",
      "count": count,
      "indexed": if self.opts.digest { self.indexed_ids()? } else { Vec::new() },
      "outs": outs,
      "unknownOuts": unknown_outs,
      "unknownRuneOuts": unknown_rune_outs,
      "insc": insc,
      "inscIdx": insc_idx,
      "sorted": sorted,
      "outOrder": out_order,
      "nEntries": n_entries,
      "nIds": n_ids,
      "nNumbers": n_numbers,
      "nSatpoints": n_satpoints,
      "byNum": by_num,
      "bySeq": by_seq,
      "inBlock": in_block,
      "latest": latest,
      "runes": runes,
      "rare": rare,
      "addr": addr,
      "addrRows": addr_rows,
      "finds": finds,
      "franges": franges,
      "stats": {
        "blessed": stat("1"), "cursed": stat("3"), "lost": units(stat("10")),
        "reserved": stat("12"), "runes": stat("13"), "unbound": stat("16"),
        "outputsTraversed": stat("11"), "satRanges": stat("14"),
      },
    });
    ev.as_object_mut()
      .unwrap()
      .insert("nonunit".into(), json!(NONUNIT.lock().unwrap().clone()));
    if self.opts.digest {
      let (digest, tables) = Self::digest_of(index)?;
      ev.as_object_mut().unwrap().insert("digest".into(), json!(digest));
      ev.as_object_mut().unwrap().insert("tables".into(), json!(tables));
    }
    Ok(ev)
  }
}

fn clamp(v: u128) -> i64 {
  if v > 2_000_000_000 { 2_000_000_000 } else { v as i64 }
}

pub fn charm_names(charms: u16) -> Vec<String> {
  Charm::charms(charms).iter().map(|c| c.to_string()).collect()
}

pub fn genesis_txid(chain: &str) -> bitcoin::Txid {
  let network = match chain {
    "regtest" => bitcoin::Network::Regtest,
    "testnet4" => bitcoin::Network::Testnet4,
    "signet" => bitcoin::Network::Signet,
    _ => bitcoin::Network::Bitcoin,
  };
  bitcoin::blockdata::constants::genesis_block(network).txdata[0].compute_txid()
}

pub fn crash_child(args: &[String]) -> Result<()> {
  // args: scenario.json rpc_url cookie dir
  let sc: Scenario = serde_json::from_str(&std::fs::read_to_string(&args[0])?)?;
  let settings = settings_for(&sc, &args[1], Path::new(&args[2]), Path::new(&args[3]), &[])?;
  let index = Index::open(&settings)?;
  ord::verif::start_echo();
  index.update()
}
