//! C31: structured text-parser cases.  Each case is built from abstract parts (digit
//! sequences, letters, separators) so that TLC can compute what the string denotes; the
//! real `FromStr` runs under catch_unwind and its outcome is recorded.

use {
  crate::sample::limbs,
  ordinals::{Rune, RuneId, Sat, SatPoint, SpacedRune},
  rand::{Rng, rngs::StdRng, seq::SliceRandom},
  serde_json::{Value, json},
  std::str::FromStr,
};

fn catch<T>(f: impl FnOnce() -> T + std::panic::UnwindSafe) -> std::result::Result<T, String> {
  std::panic::catch_unwind(f).map_err(|p| {
    p.downcast_ref::<String>()
      .cloned()
      .or_else(|| p.downcast_ref::<&str>().map(|s| s.to_string()))
      .unwrap_or_default()
  })
}

fn dstr(d: &[u32]) -> String {
  d.iter().map(|x| char::from(b'0' + *x as u8)).collect()
}

fn digits_of_u128(n: u128) -> Vec<u32> {
  n.to_string().bytes().map(|b| (b - b'0') as u32).collect()
}

/// magnitude classes for a numeric component
fn number(rng: &mut StdRng, around: &[u128]) -> Vec<u32> {
  let mut pool: Vec<u128> = vec![0, 1, 2, 9, 10, u32::MAX as u128 - 1, u32::MAX as u128, u32::MAX as u128 + 1,
    u64::MAX as u128, u64::MAX as u128 + 1, u128::MAX - 1, u128::MAX];
  for a in around {
    pool.extend([a.saturating_sub(1), *a, a.saturating_add(1)]);
  }
  let v = *pool.choose(rng).unwrap();
  let mut d = digits_of_u128(v);
  match rng.gen_range(0..12) {
    0 => {
      // beyond u128
      d = digits_of_u128(u128::MAX);
      d.push(rng.gen_range(0..10));
    }
    1 => {
      let mut z = vec![0; rng.gen_range(1..4)];
      z.extend(d);
      d = z;
    }
    2 => d = digits_of_u128(rng.r#gen::<u64>() as u128 % 10_000_000),
    _ => {}
  }
  d
}

fn sat_result(text: &str) -> Value {
  let t = text.to_string();
  match catch(move || t.parse::<Sat>()) {
    Ok(Ok(s)) => json!({"st": "ok", "n": limbs(s.0 as u128)}),
    Ok(Err(_)) => json!({"st": "err", "n": []}),
    Err(p) => json!({"st": "panic", "n": [], "text": p}),
  }
}

pub fn cases(rng: &mut StdRng, n: usize, out: &mut Vec<Value>) {
  let last = Sat::LAST.0 as u128;
  for i in 0..n {
    // ---- sat integer
    let d = number(rng, &[last, Sat::SUPPLY as u128]);
    let junk = rng.gen_bool(0.1);
    let plus = rng.gen_bool(0.1);
    let mut text = dstr(&d);
    if plus {
      text = format!("+{text}");
    }
    if junk {
      text = format!("{text} ");
    }
    out.push(json!({"f": "parse", "g": "sat_int", "text": text, "digits": d, "plus": plus, "junk": junk, "res": sat_result(&text)}));

    // ---- sat decimal
    let h = number(rng, &[209_999, 210_000, 6_929_999, 6_930_000]);
    let o = number(rng, &[5_000_000_000, 2_500_000_000, 0, 1]);
    let text = format!("{}.{}", dstr(&h), dstr(&o));
    out.push(json!({"f": "parse", "g": "sat_dec", "text": text, "h": h, "o": o, "res": sat_result(&text)}));

    // ---- sat degree
    let a = if rng.gen_bool(0.5) { digits_of_u128(rng.gen_range(0..7)) } else { number(rng, &[5, 6, 715_827_882, 715_827_883, 3500]) };
    let (b, c) = if rng.gen_bool(0.6) {
      // consistent pair: pick an epoch within the cycle and an epoch offset
      let k = rng.gen_range(0..6u64);
      let off = [0u64, 1, 2015, 2016, 209_999, rng.gen_range(0..210_000)][rng.gen_range(0..6)];
      let hh = k * 210_000 + off;
      (digits_of_u128(off as u128), digits_of_u128((hh % 2016) as u128))
    } else {
      (number(rng, &[209_999, 210_000]), number(rng, &[2015, 2016]))
    };
    let has_d = rng.gen_bool(0.7);
    let dd = number(rng, &[5_000_000_000, 4_999_999_999, 0]);
    let mut text = format!("{}°{}′{}″", dstr(&a), dstr(&b), dstr(&c));
    if has_d {
      text.push_str(&format!("{}‴", dstr(&dd)));
    }
    out.push(json!({"f": "parse", "g": "sat_deg", "text": text, "a": a, "b": b, "c": c, "hasD": has_d, "d": dd, "res": sat_result(&text)}));

    // ---- sat percentile
    let (cls, text, pi, pf): (&str, String, Vec<u32>, Vec<u32>) = match rng.gen_range(0..9) {
      0 => ("nan", ["NAN%", "NaN%", "nan%", "-NAN%"][rng.gen_range(0..4)].to_string(), vec![], vec![]),
      1 => ("inf", ["INF%", "inf%", "INFINITY%", "1e999%", "-inf%"][rng.gen_range(0..5)].to_string(), vec![], vec![]),
      2 => ("neg", format!("-{}%", rng.gen_range(1..50)), vec![], vec![]),
      _ => {
        let pi = digits_of_u128([0u128, 1, 50, 99, 100, 101, 1000][rng.gen_range(0..7)]);
        let pf: Vec<u32> = (0..rng.gen_range(0..18)).map(|_| rng.gen_range(0..10)).collect();
        let t = if pf.is_empty() { format!("{}%", dstr(&pi)) } else { format!("{}.{}%", dstr(&pi), dstr(&pf)) };
        ("num", t, pi, pf)
      }
    };
    out.push(json!({"f": "parse", "g": "sat_pct", "text": text, "cls": cls, "int": pi, "frac": pf, "res": sat_result(&text)}));

    // ---- sat name
    let len = [1usize, 2, 5, 10, 11, 11, 11, 12, 13, 20, 40][rng.gen_range(0..11)];
    let mut letters: Vec<u32> = (0..len).map(|_| rng.gen_range(1..=26)).collect();
    if rng.gen_bool(0.3) {
      // near the supply boundary: "nvtdijuwxlp" is sat 0
      letters = "nvtdijuwxlp".bytes().map(|b| (b - b'a' + 1) as u32).collect();
      let k = letters.len() - 1;
      match rng.gen_range(0..3) {
        0 => {}
        1 => letters[k] += 1,
        _ => letters[k] -= 1,
      }
    }
    let text: String = letters.iter().map(|l| char::from(b'a' + (*l as u8) - 1)).collect();
    out.push(json!({"f": "parse", "g": "sat_name", "text": text, "letters": letters, "res": sat_result(&text)}));

    // ---- rune
    let len = [0usize, 1, 2, 13, 26, 27, 28, 28, 28, 29, 40][rng.gen_range(0..11)];
    let mut letters: Vec<u32> = (0..len).map(|_| rng.gen_range(0..26)).collect();
    if rng.gen_bool(0.3) {
      letters = "BCGDENLQRQWDSLRUGSNLBTMFIJAV".bytes().map(|b| (b - b'A') as u32).collect();
      let k = letters.len() - 1;
      match rng.gen_range(0..3) {
        0 => {}
        1 => letters[k] += 1,
        _ => letters[k] -= 1,
      }
    }
    let text: String = letters.iter().map(|l| char::from(b'A' + *l as u8)).collect();
    let t = text.clone();
    let res = match catch(move || t.parse::<Rune>()) {
      Ok(Ok(r)) => json!({"st": "ok", "n": limbs(r.0)}),
      Ok(Err(_)) => json!({"st": "err", "n": []}),
      Err(p) => json!({"st": "panic", "n": [], "text": p}),
    };
    out.push(json!({"f": "parse", "g": "rune", "text": text, "letters": letters, "res": res}));

    // ---- spaced rune
    let len = [1usize, 2, 5, 13, 26, 28, 32, 33, 34, 40][rng.gen_range(0..10)];
    let mut tokens: Vec<u32> = Vec::new();
    if rng.gen_bool(0.05) {
      tokens.push(100);
    }
    for k in 0..len {
      tokens.push(if len > 28 { 0 } else { rng.gen_range(0..26) });
      let p = if k + 1 == len { 0.08 } else if k >= 30 { 0.5 } else { 0.15 };
      if rng.gen_bool(p) {
        tokens.push(100);
        if rng.gen_bool(0.05) {
          tokens.push(100);
        }
      }
    }
    let text: String = tokens.iter().map(|t| if *t == 100 { '•' } else { char::from(b'A' + *t as u8) }).collect();
    let t = text.clone();
    let res = match catch(move || t.parse::<SpacedRune>()) {
      Ok(Ok(sr)) => json!({"st": "ok", "n": limbs(sr.rune.0), "bits": (0..32).filter(|i| sr.spacers & (1 << i) != 0).collect::<Vec<u32>>()}),
      Ok(Err(_)) => json!({"st": "err", "n": [], "bits": []}),
      Err(p) => json!({"st": "panic", "n": [], "bits": [], "text": p}),
    };
    out.push(json!({"f": "parse", "g": "spaced", "text": text, "tokens": tokens, "res": res}));

    // ---- rune id
    let b = number(rng, &[0, 840_000]);
    let t = number(rng, &[0, 1]);
    let text = format!("{}:{}", dstr(&b), dstr(&t));
    let tt = text.clone();
    let res = match catch(move || RuneId::from_str(&tt)) {
      Ok(Ok(id)) => json!({"st": "ok", "b": limbs(id.block as u128), "t": limbs(id.tx as u128)}),
      Ok(Err(_)) => json!({"st": "err", "b": [], "t": []}),
      Err(p) => json!({"st": "panic", "b": [], "t": [], "text": p}),
    };
    out.push(json!({"f": "parse", "g": "runeid", "text": text, "b": b, "t": t, "res": res}));

    // ---- decimal
    let int: Vec<u32> = if rng.gen_bool(0.15) { vec![] } else { number(rng, &[1_000_000]) };
    let has_dot = rng.gen_bool(0.75) || int.is_empty();
    let flen = [0usize, 1, 2, 8, 18, 38, 39, 40, 100, 254, 255, 256, 300][rng.gen_range(0..13)];
    let mut frac: Vec<u32> = if has_dot { (0..flen).map(|_| rng.gen_range(0..10)).collect() } else { vec![] };
    if has_dot && rng.gen_bool(0.4) {
      // mostly zeros with one significant digit somewhere
      for x in frac.iter_mut() {
        *x = 0;
      }
      if !frac.is_empty() {
        let k = rng.gen_range(0..frac.len());
        frac[k] = rng.gen_range(1..10);
      }
    }
    // a sign in front of the integer part or of the fraction digits
    let plus_int = rng.gen_bool(0.06) && !int.is_empty();
    let plus_frac = rng.gen_bool(0.06) && has_dot && !frac.is_empty();
    let si = if plus_int { "+" } else { "" };
    let sf = if plus_frac { "+" } else { "" };
    let text = if has_dot { format!("{si}{}.{sf}{}", dstr(&int), dstr(&frac)) } else { format!("{si}{}", dstr(&int)) };
    let tt = text.clone();
    let res = match catch(move || ord::decimal::Decimal::from_str(&tt)) {
      Ok(Ok(d)) => json!({"st": "ok", "value": limbs(d.value), "scale": d.scale}),
      Ok(Err(_)) => json!({"st": "err", "value": [], "scale": 0}),
      Err(p) => json!({"st": "panic", "value": [], "scale": 0, "text": p}),
    };
    out.push(json!({"f": "parse", "g": "decimal", "text": text, "int": int, "hasDot": has_dot, "frac": frac, "plusInt": plus_int, "plusFrac": plus_frac, "res": res}));

    // ---- inscription id / satpoint
    let hexok = rng.gen_bool(0.85);
    let hex: String = if hexok {
      (0..64).map(|_| char::from(b"0123456789abcdefABCDEF"[rng.gen_range(0..22)])).collect()
    } else {
      match rng.gen_range(0..3) {
        0 => (0..63).map(|_| 'a').collect(),
        1 => (0..64).map(|k| if k == 17 { 'g' } else { '1' }).collect(),
        _ => (0..65).map(|_| '2').collect(),
      }
    };
    let idx = number(rng, &[0, 1]);
    let text = format!("{hex}i{}", dstr(&idx));
    let tt = text.clone();
    let res = match catch(move || ord::InscriptionId::from_str(&tt)) {
      Ok(Ok(id)) => json!({"st": "ok", "idx": limbs(id.index as u128)}),
      Ok(Err(_)) => json!({"st": "err", "idx": []}),
      Err(p) => json!({"st": "panic", "idx": [], "text": p}),
    };
    out.push(json!({"f": "parse", "g": "iid", "text": text, "hexok": hexok, "idx": idx, "res": res}));

    let vout = number(rng, &[0, 1]);
    let off = number(rng, &[0, 1]);
    let text = format!("{hex}:{}:{}", dstr(&vout), dstr(&off));
    let tt = text.clone();
    let res = match catch(move || SatPoint::from_str(&tt)) {
      Ok(Ok(sp)) => json!({"st": "ok", "vout": limbs(sp.outpoint.vout as u128), "off": limbs(sp.offset as u128)}),
      Ok(Err(_)) => json!({"st": "err", "vout": [], "off": []}),
      Err(p) => json!({"st": "panic", "vout": [], "off": [], "text": p}),
    };
    out.push(json!({"f": "parse", "g": "satpoint", "text": text, "hexok": hexok, "vout": vout, "off": off, "res": res}));

    // ---- outgoing: every text above is also offered to Outgoing (totality), plus random strings
    if i % 3 == 0 {
      let alphabet: Vec<char> = "0123456789abcxyzABCXYZ.:•°′″‴%- +ie".chars().collect();
      let len = rng.gen_range(0..24);
      let s: String = (0..len).map(|_| *alphabet.choose(rng).unwrap()).collect();
      for (g, st) in [
        ("any_sat", catch({ let s = s.clone(); move || s.parse::<Sat>().is_ok() })),
        ("any_rune", catch({ let s = s.clone(); move || s.parse::<Rune>().is_ok() })),
        ("any_spaced", catch({ let s = s.clone(); move || s.parse::<SpacedRune>().is_ok() })),
        ("any_runeid", catch({ let s = s.clone(); move || s.parse::<RuneId>().is_ok() })),
        ("any_decimal", catch({ let s = s.clone(); move || s.parse::<ord::decimal::Decimal>().is_ok() })),
        ("any_satpoint", catch({ let s = s.clone(); move || s.parse::<SatPoint>().is_ok() })),
        ("any_iid", catch({ let s = s.clone(); move || s.parse::<ord::InscriptionId>().is_ok() })),
        ("any_outgoing", catch({ let s = s.clone(); move || s.parse::<ord::outgoing::Outgoing>().is_ok() })),
      ] {
        let res = match st {
          Ok(true) => "ok",
          Ok(false) => "err",
          Err(_) => "panic",
        };
        out.push(json!({"f": "parse", "g": g, "text": s, "res": {"st": res}}));
      }
    }
  }
  // the texts of the structured cases are also offered to Outgoing
  let texts: Vec<String> = out.iter().filter(|v| v["f"] == "parse").filter_map(|v| v["text"].as_str().map(|s| s.to_string())).collect();
  for (k, s) in texts.into_iter().enumerate() {
    if k % 4 != 0 {
      continue;
    }
    let s2 = s.clone();
    let res = match catch(move || s2.parse::<ord::outgoing::Outgoing>().is_ok()) {
      Ok(true) => "ok",
      Ok(false) => "err",
      Err(_) => "panic",
    };
    out.push(json!({"f": "parse", "g": "any_outgoing", "text": s, "res": {"st": res}}));
  }
}
