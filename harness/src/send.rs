//! C20 driver: runs the real `TransactionBuilder::build_transaction` on abstract wallet
//! configurations (TLC-enumerated or seeded random) and records the outcome.

use {
  anyhow::Result,
  bitcoin::{
    Address, Amount, Network, OutPoint, ScriptBuf, TxOut, Txid, Witness,
    hashes::Hash,
    key::{Secp256k1, UntweakedPublicKey},
    secp256k1::{SecretKey, rand::SeedableRng},
  },
  ord::{FeeRate, InscriptionId, Target, TransactionBuilder},
  ordinals::SatPoint,
  serde_json::{Value, json},
  std::collections::{BTreeMap, BTreeSet},
};

fn address(n: u8) -> Address {
  let secp = Secp256k1::new();
  let sk = SecretKey::from_slice(&[n.max(1); 32]).unwrap();
  let (xonly, _) = UntweakedPublicKey::from_keypair(&bitcoin::key::Keypair::from_secret_key(&secp, &sk));
  Address::p2tr(&secp, xonly, None, Network::Regtest)
}

/// The i-th wallet output (1-based). Outputs are grouped in runs of `gsz` that share a transaction id (outputs of one
/// batch reveal, say) and differ in vout; the map order (txid bytes, then vout) follows the index either way.
fn outpoint_in(i: usize, gsz: usize) -> OutPoint {
  let g = (i - 1) / gsz.max(1) + 1;
  // Txid ordering compares the internal byte array; put the group number in the most significant position
  let mut arr = [0u8; 32];
  arr[0] = (g / 256) as u8;
  arr[1] = (g % 256) as u8;
  OutPoint {
    txid: Txid::from_byte_array(arr),
    vout: if gsz <= 1 { 0 } else { i as u32 },
  }
}

pub fn run_one(cfg: &Value) -> Value {
  let utxos = cfg["utxos"].as_array().unwrap();
  let mut amounts = BTreeMap::new();
  let mut inscriptions: BTreeMap<SatPoint, Vec<InscriptionId>> = BTreeMap::new();
  let mut locked = BTreeSet::new();
  let mut runic = BTreeSet::new();
  let wallet_script = address(9).script_pubkey();
  let gsz = cfg.get("gsz").and_then(|g| g.as_u64()).unwrap_or(1) as usize;
  let outpoint = |i: usize| outpoint_in(i, gsz);
  for (i, u) in utxos.iter().enumerate() {
    let op = outpoint(i + 1);
    amounts.insert(
      op,
      TxOut {
        value: Amount::from_sat(u["v"].as_u64().unwrap()),
        script_pubkey: wallet_script.clone(),
      },
    );
    for (k, off) in u["ins"].as_array().unwrap().iter().enumerate() {
      let mut idb = [0x55u8; 32];
      idb[0] = i as u8;
      idb[1] = k as u8;
      inscriptions
        .entry(SatPoint {
          outpoint: op,
          offset: off.as_u64().unwrap(),
        })
        .or_default()
        .push(InscriptionId {
          txid: Txid::from_byte_array(idb),
          index: 0,
        });
    }
    if u["runic"].as_bool().unwrap_or(false) {
      runic.insert(op);
    }
    if u["locked"].as_bool().unwrap_or(false) {
      locked.insert(op);
    }
  }
  let out_u = cfg["out"]["u"].as_u64().unwrap() as usize;
  let outgoing = SatPoint {
    outpoint: outpoint(out_u),
    offset: cfg["out"]["off"].as_u64().unwrap(),
  };
  let rate = match cfg.get("rate") {
    Some(r) if !r.is_null() => r.as_f64().unwrap(),
    _ => cfg["r2"].as_u64().unwrap() as f64 / 2.0,
  };
  let fee_rate = FeeRate::try_from(rate).unwrap();
  let tv = cfg["target"]["v"].as_u64().unwrap();
  let target = match cfg["target"]["kind"].as_str().unwrap() {
    "postage" => Target::Postage,
    "exact" => Target::ExactPostage(Amount::from_sat(tv)),
    _ => Target::Value(Amount::from_sat(tv)),
  };
  let recipient = address(1).script_pubkey();
  let change = [address(2), address(3)];
  let change_scripts: Vec<ScriptBuf> = change.iter().map(|a| a.script_pubkey()).collect();
  let amounts2 = amounts.clone();
  let recipient2 = recipient.clone();
  let result = std::panic::catch_unwind(move || {
    TransactionBuilder::new(
      outgoing,
      inscriptions,
      amounts,
      locked,
      runic,
      recipient,
      change,
      fee_rate,
      target,
      Network::Regtest,
    )
    .build_transaction()
  });
  let idx_of = |op: &OutPoint| -> usize {
    amounts2.keys().position(|k| k == op).map(|p| p + 1).unwrap_or(0)
  };
  match result {
    Ok(Ok(tx)) => {
      let mut signed = tx.clone();
      for i in &mut signed.input {
        i.witness = Witness::from_slice(&[&[0u8; 64]]);
      }
      let ins: Vec<usize> = tx.input.iter().map(|i| idx_of(&i.previous_output)).collect();
      let outs: Vec<Value> = tx
        .output
        .iter()
        .map(|o| {
          let k = if o.script_pubkey == recipient2 {
            "R"
          } else if change_scripts.contains(&o.script_pubkey) {
            "C"
          } else {
            "X"
          };
          let which = change_scripts.iter().position(|s| *s == o.script_pubkey).map(|p| p + 1).unwrap_or(0);
          json!({"k": k, "v": o.value.to_sat(), "c": which})
        })
        .collect();
      json!({"st": "ok", "ins": ins, "outs": outs, "vsize": signed.vsize(), "text": ""})
    }
    Ok(Err(e)) => {
      use ord::wallet::transaction_builder::Error as E;
      let kind = match &e {
        E::UtxoContainsAdditionalInscriptions { .. } => "err:additional",
        E::OutOfRange(..) => "err:range",
        E::NotEnoughCardinalUtxos => "err:cardinal",
        E::Dust { .. } => "err:dust",
        E::ValueOverflow => "err:overflow",
        E::NotInWallet(..) => "err:notinwallet",
        E::DuplicateAddress(..) => "err:dup",
        E::InvalidAddress(..) => "err:address",
      };
      json!({"st": kind, "ins": [], "outs": [], "vsize": 0, "text": e.to_string()})
    }
    Err(p) => {
      let text = p
        .downcast_ref::<String>()
        .cloned()
        .or_else(|| p.downcast_ref::<&str>().map(|s| s.to_string()))
        .unwrap_or_default();
      let class = if text.contains("excess postage is stripped") {
        "panic:postage not stripped"
      } else if text.contains("all outputs are above dust limit") {
        "panic:dust"
      } else if text.contains("deducting fee does not consume sat") {
        "panic:fee consumes sat"
      } else if text.contains("last output can pay fee") {
        "panic:last cannot pay fee"
      } else if text.contains("output equals target value") {
        "panic:value not equal"
      } else if text.contains("sat is at first position") {
        "panic:sat not first"
      } else if text.contains("fee estimation is correct") {
        "panic:fee estimation"
      } else if text.contains("called `Option::unwrap()` on a `None` value") {
        "panic:value underflow"
      } else {
        "panic:other"
      };
      json!({"st": class, "ins": [], "outs": [], "vsize": 0, "text": text})
    }
  }
}

pub fn run(configs: &str, out: &str) -> Result<()> {
  use std::io::Write;
  std::panic::set_hook(Box::new(|_| {}));
  let mut f = std::io::BufWriter::new(std::fs::File::create(out)?);
  for line in std::fs::read_to_string(configs)?.lines() {
    if line.trim().is_empty() {
      continue;
    }
    let v: Value = serde_json::from_str(line)?;
    let cfg = if v.get("cfg").is_some() { v["cfg"].clone() } else { v.clone() };
    // a configuration that does not say how its outputs share transaction ids is run both ways: every output in a
    // transaction of its own, and all of them outputs of one transaction (the builder must not care)
    let mut variants = vec![cfg.clone()];
    if cfg.get("gsz").is_none() && cfg["utxos"].as_array().map(|u| u.len()).unwrap_or(0) > 1 {
      let mut c2 = cfg.clone();
      c2["gsz"] = json!(cfg["utxos"].as_array().unwrap().len());
      variants.push(c2);
    }
    for cfg in variants {
      let obs = run_one(&cfg);
      let mut rec = json!({"cfg": cfg, "obs": obs});
      if let Some(m) = v.get("model") {
        rec.as_object_mut().unwrap().insert("model".into(), m.clone());
      }
      writeln!(f, "{rec}")?;
    }
  }
  Ok(())
}

/// seeded random real-scale wallets
pub fn r#gen(seed: u64, n: usize, out: &str) -> Result<()> {
  use rand::Rng;
  use std::io::Write;
  let mut rng = rand::rngs::StdRng::seed_from_u64(seed);
  let mut f = std::io::BufWriter::new(std::fs::File::create(out)?);
  let vals = [0u64, 1, 168, 169, 294, 329, 330, 331, 546, 1000, 1500, 9000, 9999, 10000, 10001, 19999, 20000, 20001, 50000, 100000, 5_000_000];
  for _ in 0..n {
    let n_utxo = rng.gen_range(1..=6);
    let mut utxos = Vec::new();
    for _ in 0..n_utxo {
      let v = if rng.gen_bool(0.7) {
        vals[rng.gen_range(0..vals.len())]
      } else {
        rng.gen_range(1..200_000)
      };
      let v = v.max(1);
      let mut ins: Vec<u64> = Vec::new();
      if rng.gen_bool(0.3) {
        for _ in 0..rng.gen_range(1..=2) {
          let o = match rng.gen_range(0..5) {
            0 => 0,
            1 => v - 1,
            2 => 330.min(v - 1),
            3 => 329.min(v - 1),
            _ => rng.gen_range(0..v),
          };
          if !ins.contains(&o) {
            ins.push(o);
          }
        }
        ins.sort();
      }
      utxos.push(json!({"v": v, "ins": ins, "runic": rng.gen_bool(0.1), "locked": rng.gen_bool(0.1)}));
    }
    let u = rng.gen_range(1..=n_utxo);
    let uv = utxos[u - 1]["v"].as_u64().unwrap();
    let uins: Vec<u64> = utxos[u - 1]["ins"].as_array().unwrap().iter().map(|x| x.as_u64().unwrap()).collect();
    let off = if !uins.is_empty() && rng.gen_bool(0.7) {
      uins[rng.gen_range(0..uins.len())]
    } else if rng.gen_bool(0.1) {
      uv
    } else {
      rng.gen_range(0..uv)
    };
    let r2 = match rng.gen_range(0..8) {
      0 => 0,
      1 => 2,
      2 => 3,
      3 => 20,
      4 => 201,
      5 => 2000,
      _ => rng.gen_range(0..60),
    };
    let target = match rng.gen_range(0..3) {
      0 => json!({"kind": "postage", "v": 0}),
      1 => json!({"kind": "exact", "v": vals[rng.gen_range(4..18)]}),
      _ => json!({"kind": "value", "v": vals[rng.gen_range(4..20)]}),
    };
    let gsz = [1usize, 1, 2, 3, n_utxo][rng.gen_range(0..5)];
    writeln!(f, "{}", json!({"utxos": utxos, "out": {"u": u, "off": off}, "r2": r2, "target": target, "gsz": gsz}))?;
  }
  Ok(())
}
