//! C36: every settings key x every subset of sources with conflicting values, through the real
//! `Settings::merge`; the resulting value of the key is read from the serialised settings.

use {
  anyhow::Result,
  clap::Parser,
  ord::{options::Options, settings::Settings},
  serde_json::{Value, json},
  std::{collections::BTreeMap, io::Write},
};

struct Key {
  name: &'static str,
  kind: &'static str,
  /// flag name (None: the key has no command-line flag)
  flag: Option<&'static str>,
  /// three distinct valid values (flag, env, file)
  vals: [&'static str; 3],
  /// a companion key that must be supplied by the same sources (username/password pairs)
  pair: Option<&'static str>,
}

const ID1: &str = "1111111111111111111111111111111111111111111111111111111111111111i0";
const ID2: &str = "2222222222222222222222222222222222222222222222222222222222222222i0";
const ID3: &str = "3333333333333333333333333333333333333333333333333333333333333333i1";

fn keys() -> Vec<Key> {
  let o = |name, flag, vals| Key { name, kind: "option", flag, vals, pair: None };
  let s = |name, flag| Key { name, kind: "switch", flag: Some(flag), vals: ["on", "on", "on"], pair: None };
  vec![
    o("bitcoin_data_dir", Some("--bitcoin-data-dir"), ["/tmp/bd1", "/tmp/bd2", "/tmp/bd3"]),
    o("bitcoin_rpc_limit", Some("--bitcoin-rpc-limit"), ["7", "8", "9"]),
    Key { name: "bitcoin_rpc_password", kind: "option", flag: Some("--bitcoin-rpc-password"), vals: ["p1", "p2", "p3"], pair: Some("bitcoin_rpc_username") },
    Key { name: "bitcoin_rpc_username", kind: "option", flag: Some("--bitcoin-rpc-username"), vals: ["u1", "u2", "u3"], pair: Some("bitcoin_rpc_password") },
    o("bitcoin_rpc_url", Some("--bitcoin-rpc-url"), ["http://a:1", "http://b:2", "http://c:3"]),
    o("chain", Some("--chain"), ["signet", "testnet", "regtest"]),
    o("commit_interval", Some("--commit-interval"), ["11", "22", "33"]),
    o("cookie_file", Some("--cookie-file"), ["/tmp/c1", "/tmp/c2", "/tmp/c3"]),
    o("data_dir", Some("--data-dir"), ["/tmp/d1", "/tmp/d2", "/tmp/d3"]),
    o("height_limit", Some("--height-limit"), ["101", "102", "103"]),
    o("http_port", None, ["0", "8081", "8082"]),
    o("index", Some("--index"), ["/tmp/i1.redb", "/tmp/i2.redb", "/tmp/i3.redb"]),
    o("index_cache_size", Some("--index-cache-size"), ["1001", "1002", "1003"]),
    o("max_savepoints", Some("--max-savepoints"), ["4", "5", "6"]),
    o("savepoint_interval", Some("--savepoint-interval"), ["14", "15", "16"]),
    Key { name: "server_password", kind: "option", flag: Some("--server-password"), vals: ["sp1", "sp2", "sp3"], pair: Some("server_username") },
    Key { name: "server_username", kind: "option", flag: Some("--server-username"), vals: ["su1", "su2", "su3"], pair: Some("server_password") },
    o("server_url", None, ["0", "http://s2", "http://s3"]),
    s("index_addresses", "--index-addresses"),
    s("index_runes", "--index-runes"),
    s("index_sats", "--index-sats"),
    s("index_transactions", "--index-transactions"),
    s("integration_test", "--integration-test"),
    s("no_index_inscriptions", "--no-index-inscriptions"),
    Key { name: "hidden", kind: "union", flag: None, vals: ["", "", ""], pair: None },
  ]
}

fn yaml_value(key: &Key, v: &str) -> String {
  match key.name {
    "bitcoin_rpc_limit" | "commit_interval" | "height_limit" | "http_port" | "index_cache_size" | "max_savepoints"
    | "savepoint_interval" => v.to_string(),
    _ => format!("\"{v}\""),
  }
}

fn result_string(settings: &Settings, key: &Key) -> Value {
  let v = serde_json::to_value(settings).unwrap();
  let x = &v[key.name];
  match key.kind {
    "switch" => json!(if x.as_bool().unwrap_or(false) { "on" } else { "off" }),
    "union" => {
      let mut ids: Vec<String> = x.as_array().map(|a| a.iter().map(|i| i.as_str().unwrap().to_string()).collect()).unwrap_or_default();
      ids.sort();
      json!(ids)
    }
    _ => match x {
      Value::Null => json!("none"),
      Value::String(s) => json!(s),
      other => json!(other.to_string()),
    },
  }
}

pub fn run(out: &str) -> Result<()> {
  let mut f = std::io::BufWriter::new(std::fs::File::create(out)?);
  let dir = tempfile::TempDir::new()?;
  let all = keys();
  for key in &all {
    let pair = key.pair.map(|p| all.iter().find(|k| k.name == p).unwrap());
    // the default: no source mentions the key
    let mut default = json!("none");
    let masks: Vec<u8> = (0..8u8).filter(|m| key.flag.is_some() || m & 1 == 0).collect();
    for variant in 0..2 {
      for m in &masks {
        let use_flag = m & 1 != 0;
        let use_env = m & 2 != 0;
        let use_file = m & 4 != 0;
        // variant 1 rotates the values so that precedence is not confused with value order
        let vals = if variant == 0 { key.vals } else { [key.vals[2], key.vals[0], key.vals[1]] };
        let config_path = dir.path().join(format!("{}-{}-{}.yaml", key.name, m, variant));
        let mut yaml = String::new();
        let mut args: Vec<String> = vec!["ord".into(), "--config".into(), config_path.display().to_string()];
        let mut env = BTreeMap::new();
        let (mut fl, mut en, mut fi) = if key.kind == "union" {
          (json!([]), json!([]), json!([]))
        } else {
          (json!("absent"), json!("absent"), json!("absent"))
        };
        match key.kind {
          "union" => {
            if use_env {
              env.insert("HIDDEN".to_string(), format!("{ID1} {ID2}"));
              en = json!([ID1, ID2]);
            }
            if use_file {
              let ids = if variant == 0 { vec![ID2, ID3] } else { vec![ID3] };
              yaml.push_str("hidden:\n");
              for i in &ids {
                yaml.push_str(&format!("- {i}\n"));
              }
              fi = json!(ids);
            }
          }
          "switch" => {
            if use_flag {
              args.push(key.flag.unwrap().into());
              fl = json!("on");
            }
            if use_env {
              env.insert(key.name.to_uppercase(), "1".to_string());
              en = json!("on");
            }
            if use_file {
              // the file may also say false explicitly: that does not switch it off elsewhere
              let on = variant == 0;
              yaml.push_str(&format!("{}: {}\n", key.name, on));
              fi = json!(if on { "on" } else { "off" });
            }
          }
          _ => {
            if use_flag {
              args.extend([key.flag.unwrap().to_string(), vals[0].to_string()]);
              fl = json!(vals[0]);
              if let Some(p) = pair {
                args.extend([p.flag.unwrap().to_string(), p.vals[0].to_string()]);
              }
            }
            if use_env {
              env.insert(key.name.to_uppercase(), vals[1].to_string());
              en = json!(vals[1]);
              if let Some(p) = pair {
                env.insert(p.name.to_uppercase(), p.vals[1].to_string());
              }
            }
            if use_file {
              yaml.push_str(&format!("{}: {}\n", key.name, yaml_value(key, vals[2])));
              fi = json!(vals[2]);
              if let Some(p) = pair {
                yaml.push_str(&format!("{}: {}\n", p.name, yaml_value(p, p.vals[2])));
              }
            }
          }
        }
        if yaml.is_empty() {
          yaml.push_str("{}\n");
        }
        std::fs::write(&config_path, yaml)?;
        let merged = Options::try_parse_from(args.clone())
          .map_err(|e| anyhow::anyhow!(e.to_string()))
          .and_then(|o| Settings::merge(o, env.clone()));
        let (status, result) = match &merged {
          Ok(s) => ("ok".to_string(), result_string(s, key)),
          Err(e) => (format!("err: {e}"), json!("none")),
        };
        if *m == 0 && variant == 0 {
          default = result.clone();
        }
        let d = if key.kind == "switch" { json!("off") } else { default.clone() };
        writeln!(f, "{}", json!({"key": key.name, "kind": key.kind, "flag": fl, "env": en, "file": fi, "default": d,
          "result": result, "status": status, "args": args[3..].to_vec()}))?;
      }
    }
  }
  Ok(())
}
