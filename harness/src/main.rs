mod r#gen;
mod envelope;
mod http;
mod node;
mod parsers;
mod sample;
mod runestone;
mod runner;
mod scenario;
mod send;
mod settings;
mod storage;
mod wallet;

use {
  anyhow::{Result, anyhow},
  std::io::Write,
};

fn write_trace(path: &str, events: &[serde_json::Value]) -> Result<()> {
  let mut f = std::io::BufWriter::new(std::fs::File::create(path)?);
  for e in events {
    writeln!(f, "{e}")?;
  }
  Ok(())
}

fn arg_value(args: &[String], name: &str) -> Option<String> {
  args
    .iter()
    .position(|a| a == name)
    .and_then(|i| args.get(i + 1).cloned())
}

fn main() -> Result<()> {
  let args: Vec<String> = std::env::args().skip(1).collect();
  let Some(cmd) = args.first() else {
    return Err(anyhow!("usage: ordv <command> ..."));
  };
  match cmd.as_str() {
    "run" => {
      // ordv run --scenarios S.ndjson --trace T.ndjson [--events] [--digest] [--protocol] [--no-state]
      let scen = arg_value(&args, "--scenarios").ok_or_else(|| anyhow!("--scenarios"))?;
      let trace = arg_value(&args, "--trace").ok_or_else(|| anyhow!("--trace"))?;
      let mut all = Vec::new();
      for line in std::fs::read_to_string(&scen)?.lines() {
        if line.trim().is_empty() {
          continue;
        }
        let sc: scenario::Scenario = serde_json::from_str(line)?;
        let opts = runner::Opts {
          events: args.iter().any(|a| a == "--events"),
          digest: args.iter().any(|a| a == "--digest"),
          protocol: args.iter().any(|a| a == "--protocol"),
          state_after_update: !args.iter().any(|a| a == "--no-state"),
          lookups: !args.iter().any(|a| a == "--no-lookups"),
          digest_only: args.iter().any(|a| a == "--digest-only"),
          update_timeout: std::time::Duration::from_secs(
            arg_value(&args, "--update-timeout")
              .map(|s| s.parse().unwrap())
              .unwrap_or(20),
          ),
        };
        let mut r = runner::Runner::new(sc, opts)?;
        r.run()?;
        let hung = r.hung;
        all.extend(r.out.drain(..));
        if hung {
          // a hung update thread holds the index; flush what we have and leave
          write_trace(&trace, &all)?;
          std::process::exit(0);
        }
      }
      write_trace(&trace, &all)?;
      Ok(())
    }
    "gen" => {
      // ordv gen --family ledger --seed N --n M --blocks B --flags sats,runes --chain regtest --out F
      let family = arg_value(&args, "--family").unwrap_or("ledger".into());
      let seed: u64 = arg_value(&args, "--seed").map(|s| s.parse().unwrap()).unwrap_or(0);
      let n: u64 = arg_value(&args, "--n").map(|s| s.parse().unwrap()).unwrap_or(1);
      let blocks: usize = arg_value(&args, "--blocks").map(|s| s.parse().unwrap()).unwrap_or(12);
      let flags = arg_value(&args, "--flags").unwrap_or("sats,runes,addresses".into());
      let flags: Vec<&str> = flags.split(',').filter(|s| !s.is_empty()).collect();
      let chain = arg_value(&args, "--chain").unwrap_or("regtest".into());
      let out = arg_value(&args, "--out").ok_or_else(|| anyhow!("--out"))?;
      let mut f = std::io::BufWriter::new(std::fs::File::create(out)?);
      for i in 0..n {
        let sc = match family.as_str() {
          "ledger" => {
            let cfg = r#gen::GenCfg {
              blocks,
              max_txs: 4,
              inscriptions: true,
              runes: true, // the chain must not depend on the index flags (C15 compares the same chain under several flag sets)
              update_every: arg_value(&args, "--update-every").map(|s| s.parse().unwrap()).unwrap_or(3),
              reopen: true,
              dup_coinbase: false,
              junk: true,
            };
            let tag = arg_value(&args, "--tag").unwrap_or("s".into());
            r#gen::ledger(seed * 1000 + i, &format!("{tag}x{i}"), &cfg, &flags, &chain)
          }
          "provenance" => {
            let tag = arg_value(&args, "--tag").unwrap_or("q".into());
            r#gen::provenance(seed * 1000 + i, &format!("{tag}x{i}"), blocks, &flags)
          }
          "signet" => {
            let tag = arg_value(&args, "--tag").unwrap_or("n".into());
            r#gen::signet_fetch(seed * 1000 + i, &format!("{tag}x{i}"), blocks, &flags)
          }
          "dup" => {
            let tag = arg_value(&args, "--tag").unwrap_or("d".into());
            r#gen::duplicates(seed * 1000 + i, &format!("{tag}x{i}"), blocks, &flags)
          }
          "runes" => {
            let tag = arg_value(&args, "--tag").unwrap_or("u".into());
            r#gen::runes(seed * 1000 + i, &format!("{tag}x{i}"), blocks, &flags, &chain)
          }
          "crashpair" => {
            let p = r#gen::ProtoCfg {
              ci: arg_value(&args, "--ci").map(|s| s.parse().unwrap()).unwrap_or(5000),
              si: arg_value(&args, "--si").map(|s| s.parse().unwrap()).unwrap_or(10),
              ms: arg_value(&args, "--ms").map(|s| s.parse().unwrap()).unwrap_or(2),
              flags: flags.iter().map(|s| s.to_string()).collect(),
            };
            let tag = arg_value(&args, "--tag").unwrap_or("cp".into());
            let g = |k: &str, d: usize| arg_value(&args, k).map(|s| s.parse().unwrap()).unwrap_or(d);
            let pair = r#gen::crash_pair(seed + i, &tag, &p, &arg_value(&args, "--point").unwrap_or("post_commit_main".into()),
              g("--occ", 1) as u64, g("--pre", 3), g("--more", 5), g("--later", 1), g("--depth", 2));
            for sc in &pair {
              writeln!(f, "{}", serde_json::to_string(sc)?)?;
            }
            continue;
          }
          "reorg" | "proto" | "sched" | "crash" | "kill" | "reinscribe" => {
            let p = r#gen::ProtoCfg {
              ci: arg_value(&args, "--ci").map(|s| s.parse().unwrap()).unwrap_or(5000),
              si: arg_value(&args, "--si").map(|s| s.parse().unwrap()).unwrap_or(10),
              ms: arg_value(&args, "--ms").map(|s| s.parse().unwrap()).unwrap_or(2),
              flags: flags.iter().map(|s| s.to_string()).collect(),
            };
            let tag = arg_value(&args, "--tag").unwrap_or("r".into());
            match family.as_str() {
              "reorg" => {
                let h: usize = arg_value(&args, "--h").map(|s| s.parse().unwrap()).unwrap_or(10);
                let d: usize = arg_value(&args, "--d").map(|s| s.parse().unwrap()).unwrap_or(1);
                let batch: usize = arg_value(&args, "--batch").map(|s| s.parse().unwrap()).unwrap_or(1);
                r#gen::reorg_case(seed + i, &tag, &p, h, d, batch)
              }
              "crash" => {
                let point = arg_value(&args, "--point").unwrap_or("post_commit_main".into());
                let occ: u64 = arg_value(&args, "--occ").map(|s| s.parse().unwrap()).unwrap_or(1);
                let pre: usize = arg_value(&args, "--pre").map(|s| s.parse().unwrap()).unwrap_or(3);
                let more: usize = arg_value(&args, "--more").map(|s| s.parse().unwrap()).unwrap_or(5);
                let fd: usize = arg_value(&args, "--fork-depth").map(|s| s.parse().unwrap()).unwrap_or(0);
                r#gen::crash_case(seed + i, &tag, &p, &point, occ, pre, more, fd)
              }
              "reinscribe" => {
                let shape = ["pushnum", "stutter", "dup"][(i % 3) as usize];
                r#gen::reinscribe_cursed_case(&format!("{tag}{shape}"), &p, args.iter().any(|a| a == "--split"), shape)
              }
              "kill" => {
                let pre: usize = arg_value(&args, "--pre").map(|s| s.parse().unwrap()).unwrap_or(3);
                let more: usize = arg_value(&args, "--more").map(|s| s.parse().unwrap()).unwrap_or(60);
                let delays: Vec<u64> = arg_value(&args, "--delays").unwrap_or("40,80".into()).split(',').map(|s| s.parse().unwrap()).collect();
                r#gen::kill_case(seed + i, &format!("{tag}x{i}"), &p, pre, more, &delays)
              }
              "proto" => {
                let ops: usize = arg_value(&args, "--ops").map(|s| s.parse().unwrap()).unwrap_or(25);
                let cps = arg_value(&args, "--crash-points").unwrap_or_default();
                let cps: Vec<&str> = cps.split(',').filter(|s| !s.is_empty()).collect();
                let forks = !args.iter().any(|a| a == "--no-forks");
                r#gen::proto_random(seed * 1000 + i, &format!("{tag}x{i}"), &p, ops, &cps, forks)
              }
              _ => {
                let sched: u64 = arg_value(&args, "--sched").map(|s| s.parse().unwrap()).unwrap_or(0);
                r#gen::schedule_case(seed, &tag, &p, blocks, sched * 1000 + i, &flags.join("+"))
              }
            }
          }
          other => return Err(anyhow!("unknown family {other}")),
        };
        writeln!(f, "{}", serde_json::to_string(&sc)?)?;
      }
      Ok(())
    }
    "send" => send::run(
      &arg_value(&args, "--configs").ok_or_else(|| anyhow!("--configs"))?,
      &arg_value(&args, "--out").ok_or_else(|| anyhow!("--out"))?,
    ),
    "send-gen" => send::r#gen(
      arg_value(&args, "--seed").map(|s| s.parse().unwrap()).unwrap_or(0),
      arg_value(&args, "--n").map(|s| s.parse().unwrap()).unwrap_or(100),
      &arg_value(&args, "--out").ok_or_else(|| anyhow!("--out"))?,
    ),
    "sample" => sample::run(
      &arg_value(&args, "--family").ok_or_else(|| anyhow!("--family"))?,
      arg_value(&args, "--seed").map(|s| s.parse().unwrap()).unwrap_or(0),
      arg_value(&args, "--n").map(|s| s.parse().unwrap()).unwrap_or(200),
      &arg_value(&args, "--out").ok_or_else(|| anyhow!("--out"))?,
      args.iter().any(|a| a == "--full"),
      arg_value(&args, "--heights").map(|s| {
        let (a, b) = s.split_once("..").unwrap();
        (a.parse().unwrap(), b.parse().unwrap())
      }),
    ),
    "settings" => settings::run(&arg_value(&args, "--out").ok_or_else(|| anyhow!("--out"))?),
    "runestone" => runestone::run(
      arg_value(&args, "--seed").map(|s| s.parse().unwrap()).unwrap_or(0),
      arg_value(&args, "--n").map(|s| s.parse().unwrap()).unwrap_or(300),
      args.iter().any(|a| a == "--exhaustive"),
      &arg_value(&args, "--out").ok_or_else(|| anyhow!("--out"))?,
    ),
    "envelope" => envelope::run(
      arg_value(&args, "--seed").map(|s| s.parse().unwrap()).unwrap_or(0),
      arg_value(&args, "--n").map(|s| s.parse().unwrap()).unwrap_or(300),
      arg_value(&args, "--max-len").map(|s| s.parse().unwrap()).unwrap_or(5),
      &arg_value(&args, "--out").ok_or_else(|| anyhow!("--out"))?,
    ),
    "http-content" => http::content(&arg_value(&args, "--out").ok_or_else(|| anyhow!("--out"))?),
    "http-json" => http::json_routes(
      arg_value(&args, "--seed").map(|s| s.parse().unwrap()).unwrap_or(0),
      arg_value(&args, "--n").map(|s| s.parse().unwrap()).unwrap_or(3),
      arg_value(&args, "--blocks").map(|s| s.parse().unwrap()).unwrap_or(16),
      &arg_value(&args, "--out").ok_or_else(|| anyhow!("--out"))?,
    ),
    "storage" => storage::run(
      arg_value(&args, "--seed").map(|s| s.parse().unwrap()).unwrap_or(0),
      arg_value(&args, "--n").map(|s| s.parse().unwrap()).unwrap_or(200),
      &arg_value(&args, "--out").ok_or_else(|| anyhow!("--out"))?,
    ),
    "wallet-runes" => wallet::runes_trace(
      arg_value(&args, "--seed").map(|s| s.parse().unwrap()).unwrap_or(1),
      arg_value(&args, "--worlds").map(|s| s.parse().unwrap()).unwrap_or(1),
      arg_value(&args, "--ops").map(|s| s.parse().unwrap()).unwrap_or(6),
      arg_value(&args, "--dry-splits").map(|s| s.parse().unwrap()).unwrap_or(40),
      &arg_value(&args, "--out").ok_or_else(|| anyhow!("--out"))?,
    ),
    "wallet-offers" => wallet::offers_trace(
      arg_value(&args, "--seed").map(|s| s.parse().unwrap()).unwrap_or(1),
      arg_value(&args, "--worlds").map(|s| s.parse().unwrap()).unwrap_or(1),
      arg_value(&args, "--cases").map(|s| s.parse().unwrap()).unwrap_or(40),
      &arg_value(&args, "--out").ok_or_else(|| anyhow!("--out"))?,
    ),
    "wallet-batch" => wallet::batch_trace(
      arg_value(&args, "--seed").map(|s| s.parse().unwrap()).unwrap_or(1),
      arg_value(&args, "--worlds").map(|s| s.parse().unwrap()).unwrap_or(1),
      arg_value(&args, "--ops").map(|s| s.parse().unwrap()).unwrap_or(6),
      &arg_value(&args, "--out").ok_or_else(|| anyhow!("--out"))?,
    ),
    "wallet-smoke" => wallet::smoke(&arg_value(&args, "--out").ok_or_else(|| anyhow!("--out"))?),
    "crash-child" => runner::crash_child(&args[1..]),
    other => Err(anyhow!("unknown command {other}")),
  }
}
