//! Pure-function families: evaluates the real functions on boundary and seeded random inputs and
//! records (input, output) pairs; every judgement is made by TLC (spec/FnTrace.tla).
//! Big numbers are written as little-endian base-10^4 limb arrays.

use {
  anyhow::Result,
  bitcoin::Network,
  ordinals::{Charm, Height, Pile, Rarity, Rune, Sat, SpacedRune, varint},
  rand::{Rng, SeedableRng, rngs::StdRng},
  serde_json::{Value, json},
  std::{io::Write, str::FromStr},
};

pub fn limbs(mut n: u128) -> Vec<u32> {
  let mut v = Vec::new();
  while n > 0 {
    v.push((n % 10_000) as u32);
    n /= 10_000;
  }
  v
}

fn catch<T>(f: impl FnOnce() -> T + std::panic::UnwindSafe) -> std::result::Result<T, String> {
  std::panic::catch_unwind(f).map_err(|p| {
    p.downcast_ref::<String>()
      .cloned()
      .or_else(|| p.downcast_ref::<&str>().map(|s| s.to_string()))
      .unwrap_or_default()
  })
}

fn u128_samples(rng: &mut StdRng, n: usize) -> Vec<u128> {
  let mut v: Vec<u128> = vec![0, 1, 2, 25, 26, 27, 127, 128, 129, 255, 256, 16383, 16384, u64::MAX as u128,
    u64::MAX as u128 + 1, u128::MAX, u128::MAX - 1, 1 << 127, (1 << 127) - 1, (1u128 << 126) + 5];
  for k in 1..=18 {
    let p = 1u128 << (7 * k);
    v.extend([p - 1, p, p + 1]);
  }
  let mut p = 1u128;
  for _ in 0..38 {
    p = p.saturating_mul(10);
    v.extend([p - 1, p, p.saturating_add(1)]);
  }
  for _ in 0..n {
    let bits = rng.gen_range(0..=128);
    let x: u128 = rng.r#gen();
    v.push(if bits == 128 { x } else if bits == 0 { 0 } else { x >> (128 - bits) });
  }
  v
}

pub fn varint(rng: &mut StdRng, n: usize, out: &mut Vec<Value>) {
  for x in u128_samples(rng, n) {
    let bytes = varint::encode(x);
    out.push(json!({"f": "varint_enc", "n": limbs(x), "bytes": bytes}));
  }
  let mut cases: Vec<Vec<u8>> = Vec::new();
  for x in u128_samples(rng, n / 2) {
    let enc = varint::encode(x);
    cases.push(enc.clone());
    let mut t = enc.clone();
    t.extend([0x80, 0x05]);
    cases.push(t); // trailing bytes after the terminated group
    if enc.len() > 1 {
      cases.push(enc[..enc.len() - 1].to_vec()); // unterminated prefix
    }
    let mut o = enc.clone();
    let l = o.len();
    o[l - 1] |= 0x80;
    o.push(0); // overlong-style zero padding
    cases.push(o);
  }
  // the 18/19/20 byte boundary
  for last in [0u8, 1, 2, 3, 4, 5, 0x7f, 0x80, 0x83, 0x84, 0xff] {
    for len in [18usize, 19, 20, 21] {
      let mut b = vec![0xffu8; len - 1];
      b.push(last);
      cases.push(b.clone());
      let mut c = vec![0x80u8; len - 1];
      c.push(last);
      cases.push(c);
    }
  }
  cases.push(Vec::new());
  for _ in 0..n {
    let len = rng.gen_range(0..26);
    let b: Vec<u8> = (0..len)
      .map(|_| if rng.gen_bool(0.8) { rng.r#gen::<u8>() | 0x80 } else { rng.r#gen::<u8>() & 0x7f })
      .collect();
    cases.push(b);
  }
  for b in cases {
    let b2 = b.clone();
    match catch(move || varint::decode(&b2)) {
      Ok(Ok((v, len))) => out.push(json!({"f": "varint_dec", "bytes": b, "res": "ok", "n": limbs(v), "len": len})),
      Ok(Err(e)) => {
        let kind = match e {
          varint::Error::Overlong => "overlong",
          varint::Error::Overflow => "overflow",
          varint::Error::Unterminated => "unterminated",
        };
        out.push(json!({"f": "varint_dec", "bytes": b, "res": kind, "n": [], "len": 0}))
      }
      Err(p) => out.push(json!({"f": "varint_dec", "bytes": b, "res": "panic", "n": [], "len": 0, "text": p})),
    }
  }
}

fn parse_sat(s: &str) -> Value {
  let s2 = s.to_string();
  match catch(move || s2.parse::<Sat>()) {
    Ok(Ok(sat)) => json!({"st": "ok", "n": limbs(sat.0 as u128)}),
    Ok(Err(_)) => json!({"st": "err", "n": []}),
    Err(_) => json!({"st": "panic", "n": []}),
  }
}

/// every attribute of a sat; a panic in any of the functions under test is recorded, not suffered
pub fn sat_record(s: Sat) -> Value {
  match catch(move || sat_record_inner(s)) {
    Ok(v) => v,
    Err(text) => json!({"f": "sat", "s": limbs(s.0 as u128), "panic": text.chars().take(120).collect::<String>()}),
  }
}

fn sat_record_inner(s: Sat) -> Value {
  let d = s.degree();
  let name = s.name();
  let charms: Vec<String> = Charm::charms(s.charms()).iter().map(|c| c.to_string()).collect();
  json!({
    "f": "sat",
    "s": limbs(s.0 as u128),
    "h": s.height().n(),
    "third": limbs(s.third() as u128),
    "epoch": s.epoch().0,
    "cycle": s.cycle(),
    "period": s.period(),
    "deg": [d.hour, d.minute, d.second],
    "dthird": limbs(d.third as u128),
    "dech": s.decimal().height.n(),
    "decoff": limbs(s.decimal().offset as u128),
    "rarity": s.rarity().to_string(),
    "common": s.common(),
    "charms": charms,
    "name": name.bytes().map(|b| (b - b'a' + 1) as u32).collect::<Vec<u32>>(),
    "back": {
      "int": parse_sat(&s.0.to_string()),
      "dec": parse_sat(&s.decimal().to_string()),
      "deg": parse_sat(&s.degree().to_string()),
      "name": parse_sat(&name),
      "pct": parse_sat(&s.percentile()),
    },
  })
}

pub fn sats(rng: &mut StdRng, n: usize, all_from: Option<(u32, u32)>, out: &mut Vec<Value>) {
  let mut heights: Vec<u32> = Vec::new();
  if let Some((a, b)) = all_from {
    heights.extend(a..b);
  } else {
    for e in 0..=34u32 {
      let base = e * 210_000;
      for d in [0i64, 1, 2, -1, -2, 2015, 2016, 2017] {
        let h = base as i64 + d;
        if h >= 0 {
          heights.push(h as u32);
        }
      }
    }
    for k in 0..40u32 {
      heights.push(k * 2016 * 97 % 6_930_000);
      heights.push((k * 1_260_000) % 7_000_000);
    }
    heights.extend([6_929_999, 6_930_000, 6_930_001, 7_000_000, u32::MAX / 2]);
    for _ in 0..n {
      heights.push(rng.gen_range(0..6_930_000));
    }
  }
  for h in heights {
    let hh = Height(h);
    match catch(move || (hh.starting_sat().0, hh.subsidy())) {
      Ok((start, subsidy)) => out.push(json!({"f": "height", "h": h, "start": limbs(start as u128), "sub": limbs(subsidy as u128)})),
      Err(text) => {
        out.push(json!({"f": "height", "h": h, "panic": text.chars().take(120).collect::<String>()}));
        continue;
      }
    }
    let sub = hh.subsidy();
    if sub > 0 {
      let first = hh.starting_sat().0;
      let mut picks = vec![first, first + sub - 1];
      if sub > 1 {
        picks.push(first + 1);
        picks.push(first + rng.gen_range(0..sub));
      }
      for s in picks {
        out.push(sat_record(Sat(s)));
      }
    }
  }
  if all_from.is_none() {
    for s in [0u64, 1, Sat::LAST.0, Sat::LAST.0 - 1, 50 * 100_000_000 * 9, 50 * 100_000_000 * 10 - 1, 50 * 100_000_000 * 10,
      1_111_111_111_111_111, 2_099_999_999_990_002u64.min(Sat::LAST.0), 12_345_678_987_654_321u64 % Sat::SUPPLY, 123_454_321, 1_000_000_001] {
      out.push(sat_record(Sat(s)));
    }
    for _ in 0..n {
      out.push(sat_record(Sat(rng.gen_range(0..Sat::SUPPLY))));
    }
    for r in Rarity::ALL {
      out.push(json!({"f": "rarity_supply", "rarity": r.to_string(), "supply": limbs(r.supply() as u128)}));
    }
  }
}

fn bits(x: u32) -> Vec<u32> {
  (0..32).filter(|i| x & (1 << i) != 0).collect()
}

pub fn runes(rng: &mut StdRng, n: usize, out: &mut Vec<Value>) {
  let mut vals = u128_samples(rng, n);
  let mut p = 0u128;
  let mut pw = 1u128;
  for _ in 0..27 {
    pw = pw.saturating_mul(26);
    p = p.saturating_add(pw);
    vals.extend([p.saturating_sub(1), p, p.saturating_add(1)]);
  }
  vals.extend([Rune::RESERVED, Rune::RESERVED - 1, Rune::RESERVED + 1]);
  for v in vals {
    let rune = Rune(v);
    // printing is code under test too: a panic is recorded, not suffered
    let name = match catch(move || rune.to_string()) {
      Ok(s) => s,
      Err(_) => {
        out.push(json!({"f": "rune", "n": limbs(v), "printPanic": true}));
        continue;
      }
    };
    let letters: Vec<u32> = name.bytes().map(|b| (b - b'A') as u32).collect();
    let name2 = name.clone();
    let back = match catch(move || name2.parse::<Rune>()) {
      Ok(Ok(r)) => json!({"st": "ok", "n": limbs(r.0)}),
      Ok(Err(_)) => json!({"st": "err", "n": []}),
      Err(_) => json!({"st": "panic", "n": []}),
    };
    let mask: u32 = match rng.gen_range(0..4) {
      0 => 0,
      1 => rng.r#gen(),
      2 => rng.r#gen::<u32>() & 0x07ff_ffff,
      _ => 1 << rng.gen_range(0..32),
    };
    let spaced = SpacedRune { rune, spacers: mask };
    let text = match catch(move || spaced.to_string()) {
      Ok(s) => s,
      Err(_) => {
        out.push(json!({"f": "rune", "n": limbs(v), "printPanic": true}));
        continue;
      }
    };
    let tokens: Vec<u32> = text
      .chars()
      .map(|c| if c == '•' { 100 } else { (c as u8 - b'A') as u32 })
      .collect();
    let text2 = text.clone();
    let sback = match catch(move || text2.parse::<SpacedRune>()) {
      Ok(Ok(sr)) => json!({"st": "ok", "n": limbs(sr.rune.0), "bits": bits(sr.spacers)}),
      Ok(Err(_)) => json!({"st": "err", "n": [], "bits": []}),
      Err(_) => json!({"st": "panic", "n": [], "bits": []}),
    };
    out.push(json!({"f": "rune", "n": limbs(v), "name": letters, "back": back, "commitment": rune.commitment(),
      "reserved": rune.is_reserved(), "bits": bits(mask), "spaced": tokens, "sback": sback}));
  }
}

fn net_name(n: Network) -> &'static str {
  match n {
    Network::Bitcoin => "mainnet",
    Network::Testnet => "testnet",
    Network::Signet => "signet",
    Network::Regtest => "regtest",
    _ => "testnet4",
  }
}

pub fn unlock(rng: &mut StdRng, n: usize, full: bool, out: &mut Vec<Value>) {
  for net in [Network::Bitcoin, Network::Testnet, Network::Signet, Network::Regtest, Network::Testnet4] {
    let start = Rune::first_rune_height(net);
    let mut hs: Vec<u32> = Vec::new();
    if full {
      hs.extend(start.saturating_sub(3)..start + 210_000 + 3);
    } else {
      // consecutive windows around every step of the schedule plus a sparse sweep
      for k in 0..=12u32 {
        let c = start + k * 17_500;
        hs.extend(c.saturating_sub(4)..c + 5);
      }
      let mut h = start;
      while h < start + 210_000 {
        hs.extend(h..h + 3);
        h += 997;
      }
      hs.sort();
      hs.dedup();
    }
    let mut prev: Option<u32> = None;
    for h in hs {
      let m = Rune::minimum_at_height(net, Height(h));
      let consecutive = prev.is_some_and(|p| p + 1 == h);
      out.push(json!({"f": "runemin", "net": net_name(net), "h": h, "first": start, "min": limbs(m.0), "consecutive": consecutive}));
      prev = Some(h);
    }
    let mut names = u128_samples(rng, n);
    let mut p = 0u128;
    let mut pw = 1u128;
    for _ in 0..14 {
      pw = pw.saturating_mul(26);
      p = p.saturating_add(pw);
      names.extend([p.saturating_sub(1), p, p.saturating_add(1), p / 2, p / 3 * 2]);
    }
    names.extend([Rune::RESERVED - 1, Rune::RESERVED]);
    // names exactly at, just below and just above the minimum of heights all over the schedule (long names, mid-interval)
    let mut hb = start;
    while hb < start + 210_000 {
      let off = rng.gen_range(0..1500u32);
      let m = Rune::minimum_at_height(net, Height(hb + off)).0;
      names.extend([m, m.saturating_sub(1), m.saturating_add(1)]);
      hb += if full { 211 } else { 1733 };
    }
    for v in names {
      let r = Rune(v);
      match r.unlock_height(net) {
        None => out.push(json!({"f": "rununlock", "net": net_name(net), "n": limbs(v), "unlock": -1, "minAt": [], "minBefore": [], "first": start})),
        Some(h) => {
          let at = Rune::minimum_at_height(net, h);
          let before = if h.0 > 0 { limbs(Rune::minimum_at_height(net, Height(h.0 - 1)).0) } else { Vec::new() };
          out.push(json!({"f": "rununlock", "net": net_name(net), "n": limbs(v), "unlock": h.0, "minAt": limbs(at.0),
            "minBefore": before, "first": start}))
        }
      }
    }
  }
}

fn digits_of(s: &str) -> Vec<u32> {
  s.bytes().map(|b| (b - b'0') as u32).collect()
}

pub fn decimals(rng: &mut StdRng, n: usize, out: &mut Vec<Value>) {
  let amounts = u128_samples(rng, n);
  for (i, a) in amounts.iter().enumerate() {
    let divs: Vec<u8> = if i % 7 == 0 { (0..=38).collect() } else { vec![rng.gen_range(0..=38), 0, 38] };
    for d in divs {
      let pile = Pile { amount: *a, divisibility: d, symbol: None };
      let text = pile.to_string();
      let number = text.split('\u{A0}').next().unwrap().to_string();
      let (whole, frac) = match number.split_once('.') {
        Some((w, f)) => (w.to_string(), f.to_string()),
        None => (number.clone(), String::new()),
      };
      let number2 = number.clone();
      let back = match catch(move || ord::decimal::Decimal::from_str(&number2)) {
        Ok(Ok(dec)) => {
          let ti = match catch(move || dec.to_integer(d)) {
            Ok(Ok(v)) => json!({"st": "ok", "n": limbs(v)}),
            Ok(Err(e)) => json!({"st": format!("err:{e}"), "n": []}),
            Err(_) => json!({"st": "panic", "n": []}),
          };
          json!({"st": "ok", "value": limbs(dec.value), "scale": dec.scale, "toint": ti})
        }
        Ok(Err(_)) => json!({"st": "err", "value": [], "scale": 0, "toint": {"st": "none", "n": []}}),
        Err(_) => json!({"st": "panic", "value": [], "scale": 0, "toint": {"st": "none", "n": []}}),
      };
      out.push(json!({"f": "pile", "amount": limbs(*a), "div": d, "whole": digits_of(&whole), "frac": digits_of(&frac), "back": back}));
    }
  }
}

/// arbitrary decimal strings (not only printed amounts), in particular around u128::MAX at every scale
fn decimal_strings(rng: &mut StdRng, n: usize, out: &mut Vec<Value>) {
  let max_digits: Vec<u32> = digits_of(&u128::MAX.to_string());
  let mut cases: Vec<(Vec<u32>, Vec<u32>)> = Vec::new();
  // u128::MAX, MAX+1, MAX-1, MAX+10^j written with k fractional digits
  for k in 0..=38usize {
    let cut = max_digits.len() - k;
    for delta in [0i32, 1, -1, 4, 40] {
      let mut d = max_digits.clone();
      // add delta to the last digit with carry (the result may have 40 digits)
      let mut i = d.len();
      let mut carry = delta;
      while carry != 0 && i > 0 {
        i -= 1;
        let v = d[i] as i32 + carry;
        d[i] = v.rem_euclid(10) as u32;
        carry = v.div_euclid(10);
      }
      if carry > 0 {
        d.insert(0, carry as u32);
      }
      let cut2 = d.len() - k;
      let _ = cut;
      cases.push((d[..cut2].to_vec(), d[cut2..].to_vec()));
    }
  }
  for _ in 0..n {
    let il = [0usize, 1, 5, 20, 38, 39, 40][rng.gen_range(0..7)];
    let fl = [0usize, 1, 2, 18, 38, 39][rng.gen_range(0..6)];
    let int: Vec<u32> = (0..il).map(|i| if i == 0 { rng.gen_range(1..10) } else { rng.gen_range(0..10) }).collect();
    let frac: Vec<u32> = (0..fl).map(|_| rng.gen_range(0..10)).collect();
    if int.is_empty() && frac.is_empty() {
      continue;
    }
    cases.push((int, frac));
  }
  let dstr = |d: &[u32]| d.iter().map(|x| char::from_digit(*x, 10).unwrap()).collect::<String>();
  for (int, frac) in cases {
    let text = if frac.is_empty() { dstr(&int) } else { format!("{}.{}", dstr(&int), dstr(&frac)) };
    for div in [0u8, frac.len().min(38) as u8, 38, rng.gen_range(0..=38)] {
      let t = text.clone();
      let res = match catch(move || ord::decimal::Decimal::from_str(&t)) {
        Ok(Ok(dec)) => {
          let ti = match catch(move || dec.to_integer(div)) {
            Ok(Ok(v)) => json!({"st": "ok", "n": limbs(v)}),
            Ok(Err(_)) => json!({"st": "err", "n": []}),
            Err(_) => json!({"st": "panic", "n": []}),
          };
          json!({"st": "ok", "value": limbs(dec.value), "scale": dec.scale, "toint": ti})
        }
        Ok(Err(_)) => json!({"st": "err", "value": [], "scale": 0, "toint": {"st": "none", "n": []}}),
        Err(_) => json!({"st": "panic", "value": [], "scale": 0, "toint": {"st": "none", "n": []}}),
      };
      out.push(json!({"f": "decstr", "int": int, "frac": frac, "div": div, "res": res}));
    }
  }
}

pub fn run(family: &str, seed: u64, n: usize, out_path: &str, full: bool, range: Option<(u32, u32)>) -> Result<()> {
  std::panic::set_hook(Box::new(|_| {}));
  let mut rng = StdRng::seed_from_u64(seed);
  let mut out = Vec::new();
  match family {
    "varint" => varint(&mut rng, n, &mut out),
    "sat" => sats(&mut rng, n, range, &mut out),
    "rune" => runes(&mut rng, n, &mut out),
    "unlock" => unlock(&mut rng, n, full, &mut out),
    "decimal" => {
      decimals(&mut rng, n, &mut out);
      decimal_strings(&mut rng, n, &mut out);
    }
    "parsers" => crate::parsers::cases(&mut rng, n, &mut out),
    other => anyhow::bail!("unknown sample family {other}"),
  }
  let mut f = std::io::BufWriter::new(std::fs::File::create(out_path)?);
  for v in out {
    writeln!(f, "{v}")?;
  }
  Ok(())
}
