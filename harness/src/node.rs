//! Mock node driver: turns abstract block specs into real bitcoin blocks and keeps
//! mockcore's public `State` consistent (blocks, hashes, transactions,
//! txid_to_block_height, utxos), also across pops.

use {
  crate::scenario::*,
  bitcoin::{
    Amount, Block, BlockHash, OutPoint, ScriptBuf, Sequence, Transaction, TxIn, TxMerkleNode,
    TxOut, Txid, Witness,
    absolute::LockTime,
    block::{Header, Version as BlockVersion},
    blockdata::{opcodes, script},
    hashes::Hash,
    pow::CompactTarget,
    transaction::Version,
  },
  ordinals::{Edict, Etching, Rune, RuneId, Runestone, Terms, varint},
  std::collections::BTreeMap,
};

pub struct Node {
  pub handle: mockcore::Handle,
  /// tx label -> txid
  pub txids: BTreeMap<String, Txid>,
  pub tx_labels: BTreeMap<Txid, String>,
  /// inscription label -> (tx label, index)
  pub insc: BTreeMap<String, (String, u32)>,
  /// block ids of the node's current best chain above genesis
  pub chain: Vec<String>,
  /// block id -> (hash, tx labels in block order, coinbase first)
  pub blocks: BTreeMap<String, (BlockHash, Vec<String>)>,
  pub block_ids: BTreeMap<BlockHash, String>,
  /// etching tx label -> (block height, tx index)
  pub rune_ids: BTreeMap<String, (u64, u32)>,
  /// block id -> the (height, nonce) pair pushed in its coinbase script
  cb_sigs: BTreeMap<String, (i64, i64)>,
  nonce: u32,
}

pub fn script_for(t: &str, s: u32) -> ScriptBuf {
  match t {
    "tr" => {
      let mut key = [0x42u8; 32];
      key[0..4].copy_from_slice(&s.to_le_bytes());
      key[31] = 0x01;
      script::Builder::new()
        .push_opcode(opcodes::all::OP_PUSHNUM_1)
        .push_slice(key)
        .into_script()
    }
    "wpkh" => {
      let mut h = [0x17u8; 20];
      h[0..4].copy_from_slice(&s.to_le_bytes());
      script::Builder::new()
        .push_opcode(opcodes::OP_0)
        .push_slice(h)
        .into_script()
    }
    "opret" => script::Builder::new()
      .push_opcode(opcodes::all::OP_RETURN)
      .push_slice(s.to_le_bytes())
      .into_script(),
    "empty" => ScriptBuf::new(),
    other => panic!("unknown output type {other}"),
  }
}

pub fn brotli_bytes(data: &[u8]) -> Vec<u8> {
  use std::io::Write;
  let mut out = Vec::new();
  {
    let mut w = brotli::CompressorWriter::new(&mut out, 4096, 5, 22);
    w.write_all(data).unwrap();
  }
  out
}

fn huge(v: u64) -> u64 {
  if v >= HUGE { u64::MAX } else { v }
}

pub fn control_block() -> Vec<u8> {
  let mut cb = vec![0xc0];
  cb.extend([0x02u8; 32]);
  cb
}

pub fn push(builder: script::Builder, bytes: &[u8]) -> script::Builder {
  let pb: &script::PushBytes = bytes.try_into().unwrap();
  builder.push_slice(pb)
}

pub fn rune_from_name(name: &str) -> Rune {
  name.parse::<Rune>().unwrap()
}

pub fn encode_stone_message(ints: &[u128]) -> Vec<u8> {
  let mut payload = Vec::new();
  for i in ints {
    varint::encode_to_vec(*i, &mut payload);
  }
  payload
}

pub fn stone_script(payload: &[u8], extra_opcode: bool) -> ScriptBuf {
  let mut b = script::Builder::new()
    .push_opcode(opcodes::all::OP_RETURN)
    .push_opcode(Runestone::MAGIC_NUMBER);
  if extra_opcode {
    b = b.push_opcode(opcodes::all::OP_VERIFY);
  }
  for chunk in payload.chunks(520) {
    b = push(b, chunk);
  }
  b.into_script()
}

impl Node {
  pub fn new(chain: &str) -> Self {
    let network = match chain {
      "regtest" => bitcoin::Network::Regtest,
      "testnet4" => bitcoin::Network::Testnet4,
      "signet" => bitcoin::Network::Signet,
      "mainnet" => bitcoin::Network::Bitcoin,
      other => panic!("unsupported chain {other}"),
    };
    let handle = mockcore::builder().network(network).build();
    Self {
      handle,
      txids: BTreeMap::new(),
      tx_labels: BTreeMap::new(),
      insc: BTreeMap::new(),
      chain: Vec::new(),
      blocks: BTreeMap::new(),
      block_ids: BTreeMap::new(),
      rune_ids: BTreeMap::new(),
      cb_sigs: BTreeMap::new(),
      nonce: 0,
    }
  }

  pub fn height(&self) -> usize {
    self.chain.len()
  }

  pub fn outpoint(&self, label: &str) -> OutPoint {
    let (tx, vout) = label.rsplit_once(':').expect("outpoint label");
    OutPoint {
      txid: *self
        .txids
        .get(tx)
        .unwrap_or_else(|| panic!("unknown tx label {tx}")),
      vout: vout.parse().unwrap(),
    }
  }

  pub fn outpoint_label(&self, o: OutPoint) -> String {
    if o == OutPoint::null() {
      return "lost".into();
    }
    if o == ord::unbound_outpoint() {
      return "unbound".into();
    }
    match self.tx_labels.get(&o.txid) {
      Some(l) => format!("{l}:{}", o.vout),
      None => format!("?{}:{}", o.txid, o.vout),
    }
  }

  pub fn inscription_id(&self, label: &str) -> ord::InscriptionId {
    match self.insc.get(label) {
      Some((tx, index)) => ord::InscriptionId {
        txid: self.txids[tx],
        index: *index,
      },
      None => {
        // deterministic id naming no inscription
        let mut bytes = [0x77u8; 32];
        for (i, b) in label.bytes().enumerate().take(16) {
          bytes[i] = b;
        }
        ord::InscriptionId {
          txid: Txid::from_byte_array(bytes),
          index: 0,
        }
      }
    }
  }

  pub fn inscription_label(&self, id: ord::InscriptionId) -> String {
    if let Some(tx) = self.tx_labels.get(&id.txid) {
      for (label, (t, i)) in &self.insc {
        if t == tx && *i == id.index {
          return label.clone();
        }
      }
      return format!("?{tx}i{}", id.index);
    }
    format!("?{id}")
  }

  fn id_value(id: ord::InscriptionId) -> Vec<u8> {
    let mut v = id.txid.to_byte_array().to_vec();
    let idx = id.index.to_le_bytes();
    let mut n = 4;
    while n > 0 && idx[n - 1] == 0 {
      n -= 1;
    }
    v.extend(&idx[..n]);
    v
  }

  fn envelope_script(&self, mut b: script::Builder, env: &EnvSpec) -> script::Builder {
    if env.stutter {
      b = b.push_opcode(opcodes::OP_FALSE);
    }
    b = b
      .push_opcode(opcodes::OP_FALSE)
      .push_opcode(opcodes::all::OP_IF);
    b = push(b, b"ord");
    let ct: &[u8] = match env.ct.as_deref() {
      Some("text") => b"text/plain;charset=utf-8",
      Some("html") => b"text/html",
      Some("invalid") => b"image/png\nx: y",
      Some("absent") => b"",
      Some(_) => b"image/png",
      None => {
        if env.hidden {
          b"text/plain;charset=utf-8"
        } else {
          b"image/png"
        }
      }
    };
    if !ct.is_empty() {
      if env.pushnum {
        b = b.push_opcode(opcodes::all::OP_PUSHNUM_1);
      } else {
        b = push(b, &[1]);
      }
      b = push(b, ct);
      if env.dup {
        b = push(b, &[1]);
        b = push(b, ct);
      }
    }
    match env.enc.as_deref() {
      Some("br") => {
        b = push(b, &[9]);
        b = push(b, b"br");
      }
      Some("gzip") => {
        b = push(b, &[9]);
        b = push(b, b"gzip");
      }
      Some("invalid") => {
        b = push(b, &[9]);
        b = push(b, &[0xff, 0xfe]);
      }
      _ => {}
    }
    if let Some(p) = env.pointer {
      let mut bytes = (p * K).to_le_bytes().to_vec();
      while bytes.last() == Some(&0) {
        bytes.pop();
      }
      b = push(b, &[2]);
      b = push(b, &bytes);
    }
    for parent in &env.parents {
      b = push(b, &[3]);
      b = push(b, &Self::id_value(self.inscription_id(parent)));
    }
    if let Some(d) = &env.delegate {
      b = push(b, &[11]);
      b = push(b, &Self::id_value(self.inscription_id(d)));
    }
    if env.even {
      b = push(b, &[66]);
      b = push(b, &[0]);
    }
    if env.incomplete {
      // a lone tag push with no value and no body
      b = push(b, &[5]);
    } else if !env.nobody {
      b = push(b, &[]);
      if env.enc.as_deref() == Some("br") {
        b = push(b, &brotli_bytes(env.label.as_bytes()));
      } else {
        b = push(b, env.label.as_bytes());
      }
    }
    b.push_opcode(opcodes::all::OP_ENDIF)
  }

  fn build_stone(&self, tx: &TxSpec, height: u64, tx_index: u32) -> ScriptBuf {
    let stone = tx.stone.as_ref().unwrap();
    let n_out = tx.outs.len() as u32;
    let rune_id = |label: &str| -> RuneId {
      if label == "self" {
        RuneId { block: 0, tx: 0 }
      } else if let Some((b, t)) = self.rune_ids.get(label) {
        RuneId { block: *b, tx: *t }
      } else if label == tx.label {
        RuneId {
          block: height,
          tx: tx_index,
        }
      } else {
        // an id that names no rune
        RuneId {
          block: 1_000_000,
          tx: 7,
        }
      }
    };
    let etching = stone.etching.as_ref().map(|e| Etching {
      divisibility: None,
      premine: e.premine.map(u128::from),
      rune: e.name.as_ref().map(|n| rune_from_name(n)),
      spacers: None,
      symbol: None,
      terms: e.terms.as_ref().map(|t| Terms {
        amount: t.amount.map(u128::from),
        cap: t.cap.map(u128::from),
        height: (t.hs.map(huge), t.he.map(huge)),
        offset: (t.os.map(huge), t.oe.map(huge)),
      }),
      turbo: false,
    });
    let mut edicts = Vec::new();
    for e in &stone.edicts {
      edicts.push(Edict {
        id: rune_id(&e.rune),
        amount: e.amount.into(),
        output: e.output,
      });
    }
    let flaw = stone.flaw.as_deref();
    if flaw == Some("edictOutput") {
      edicts.push(Edict {
        id: edicts.first().map(|e| e.id).unwrap_or(RuneId { block: 1, tx: 1 }),
        amount: 1,
        output: n_out + 1,
      });
    }
    let rs = Runestone {
      edicts,
      etching,
      mint: stone.mint.as_ref().map(|m| rune_id(m)),
      pointer: stone.pointer,
    };
    let script = rs.encipher();
    if flaw.is_none() || flaw == Some("edictOutput") {
      return script;
    }
    // recover the payload of the enciphered script and damage it
    let mut payload = Vec::new();
    for ins in script.instructions().skip(2) {
      if let Ok(script::Instruction::PushBytes(p)) = ins {
        payload.extend(p.as_bytes());
      }
    }
    // split into tag area and edict area: the body tag 0 separates them
    let mut ints = Vec::new();
    let mut i = 0;
    while i < payload.len() {
      let (n, len) = varint::decode(&payload[i..]).unwrap();
      ints.push(n);
      i += len;
    }
    let body_at = {
      let mut k = 0;
      let mut found = None;
      while k < ints.len() {
        if ints[k] == 0 {
          found = Some(k);
          break;
        }
        k += 2;
      }
      found
    };
    let (mut head, tail): (Vec<u128>, Vec<u128>) = match body_at {
      Some(k) => (ints[..k].to_vec(), ints[k..].to_vec()),
      None => (ints.clone(), Vec::new()),
    };
    match flaw.unwrap() {
      "evenTag" => {
        head.extend([100, 0]);
      }
      "flag" => {
        // add an unrecognized flag bit, merging with an existing flags field
        let mut done = false;
        let mut k = 0;
        while k + 1 < head.len() {
          if head[k] == 2 {
            head[k + 1] |= 1 << 20;
            done = true;
            break;
          }
          k += 2;
        }
        if !done {
          head = [vec![2, 1 << 20], head].concat();
        }
      }
      "truncated" => {
        let mut all = [head.clone(), tail.clone()].concat();
        if tail.is_empty() {
          all.push(99);
        } else {
          // a lone odd tag before the body cannot be expressed; truncate the edict instead
          all.pop();
        }
        return stone_script(&encode_stone_message(&all), false);
      }
      "trailing" => {
        let mut all = [head.clone(), tail.clone()].concat();
        if tail.is_empty() {
          // body tag followed by a single integer: an incomplete edict
          all.push(0);
        } else {
          all.extend([0, 0]);
        }
        all.push(0);
        return stone_script(&encode_stone_message(&all), false);
      }
      "edictRuneId" => {
        let mut all = [head.clone(), tail.clone()].concat();
        if tail.is_empty() {
          all.push(0);
        }
        // block delta 0 with tx > 0 from a zero base is an invalid id
        all = [head.clone(), vec![0, 0, 5, 1, 0]].concat();
        return stone_script(&encode_stone_message(&all), false);
      }
      "opcode" => {
        return stone_script(&payload, true);
      }
      "varint" => {
        let mut p = payload.clone();
        p.push(0x80);
        return stone_script(&p, false);
      }
      "supply" => {
        // premine u128::MAX with cap 1 amount 1 overflows
        let mut k = 0;
        let mut all = head.clone();
        let mut set = false;
        while k + 1 < all.len() {
          if all[k] == 6 {
            all[k + 1] = u128::MAX;
            set = true;
          }
          k += 2;
        }
        if !set {
          all.extend([6, u128::MAX]);
        }
        let mut k = 0;
        let mut has_flags = false;
        while k + 1 < all.len() {
          if all[k] == 2 {
            all[k + 1] |= 0b11;
            has_flags = true;
          }
          k += 2;
        }
        if !has_flags {
          all = [vec![2, 0b11], all].concat();
        }
        all.extend([8, 1, 10, 1]);
        all.extend(tail);
        return stone_script(&encode_stone_message(&all), false);
      }
      other => panic!("unknown flaw {other}"),
    }
    stone_script(&encode_stone_message(&[head, tail].concat()), false)
  }

  /// Build and append a block; returns the real block.
  pub fn push_block(&mut self, spec: &BlockSpec) -> Block {
    let height = self.chain.len() as u64 + 1;
    // pass 1: transactions without witnesses (txids do not depend on witnesses)
    let mut txs: Vec<Transaction> = Vec::new();
    let cb_label = format!("c{}", spec.dup.as_ref().unwrap_or(&spec.id));
    let mut labels = vec![cb_label.clone()];
    for (i, t) in spec.txs.iter().enumerate() {
      let tx_index = (i + 1) as u32;
      let mut stone_done = false;
      let mut output = Vec::new();
      for o in &t.outs {
        let script_pubkey = if o.t == "stone" {
          if stone_done || t.stone.is_none() {
            script_for("opret", o.s)
          } else {
            stone_done = true;
            self.build_stone(t, height, tx_index)
          }
        } else {
          script_for(&o.t, o.s)
        };
        output.push(TxOut {
          value: Amount::from_sat(o.v * K),
          script_pubkey,
        });
      }
      let input = t
        .ins
        .iter()
        .map(|l| TxIn {
          previous_output: self.outpoint(l),
          script_sig: ScriptBuf::new(),
          sequence: Sequence::ENABLE_RBF_NO_LOCKTIME,
          witness: Witness::new(),
        })
        .collect();
      let tx = Transaction {
        version: Version(2),
        lock_time: LockTime::ZERO,
        input,
        output,
      };
      let txid = tx.compute_txid();
      self.txids.insert(t.label.clone(), txid);
      self.tx_labels.insert(txid, t.label.clone());
      for (k, e) in t.envs.iter().enumerate() {
        self.insc.insert(e.label.clone(), (t.label.clone(), k as u32));
      }
      if t.stone.as_ref().is_some_and(|s| s.etching.is_some()) {
        self.rune_ids.insert(t.label.clone(), (height, tx_index));
      }
      labels.push(t.label.clone());
      txs.push(tx);
    }
    // pass 2: witnesses
    for (t, tx) in spec.txs.iter().zip(txs.iter_mut()) {
      for (i, txin) in tx.input.iter_mut().enumerate() {
        let mut b = script::Builder::new();
        let mut any = false;
        if let Some(j) = &t.junk {
          if j == "noise" {
            b = b
              .push_opcode(opcodes::all::OP_DROP)
              .push_opcode(opcodes::OP_FALSE)
              .push_opcode(opcodes::all::OP_IF);
            b = push(b, b"orx");
            b = b.push_opcode(opcodes::all::OP_ENDIF);
            any = true;
          }
        }
        for c in t.commits.iter().filter(|c| c.input == i) {
          b = push(b, &rune_from_name(&c.name).commitment());
          any = true;
        }
        for e in t.envs.iter().filter(|e| e.input == i) {
          b = self.envelope_script(b, e);
          any = true;
        }
        if any {
          let mut w = Witness::new();
          w.push(b.into_script().as_bytes());
          w.push(control_block());
          txin.witness = w;
        } else if t.junk.as_deref() == Some("keypath") {
          let mut w = Witness::new();
          w.push([0x11u8; 64]);
          txin.witness = w;
        }
      }
    }
    let coinbase = Transaction {
      version: Version(2),
      lock_time: LockTime::ZERO,
      input: vec![TxIn {
        previous_output: OutPoint::null(),
        script_sig: {
          let sig = match &spec.dup {
            Some(x) => self.cb_sigs[x],
            None => (height as i64, self.nonce as i64),
          };
          self.cb_sigs.insert(spec.id.clone(), sig);
          script::Builder::new().push_int(sig.0).push_int(sig.1).into_script()
        },
        sequence: Sequence::MAX,
        witness: Witness::new(),
      }],
      output: spec
        .cb
        .iter()
        .map(|o| TxOut {
          value: Amount::from_sat(o.v * K),
          script_pubkey: script_for(if o.t == "stone" { "opret" } else { &o.t }, o.s),
        })
        .collect(),
    };
    self.nonce += 1;
    let cb_txid = coinbase.compute_txid();
    self.txids.insert(cb_label.clone(), cb_txid);
    self.tx_labels.insert(cb_txid, cb_label.clone());
    let mut txdata = vec![coinbase];
    txdata.extend(txs);

    let mut state = self.handle.state();
    let prev = *state.hashes.last().unwrap();
    let block = Block {
      header: Header {
        version: BlockVersion::ONE,
        prev_blockhash: prev,
        merkle_root: TxMerkleNode::all_zeros(),
        time: (height as u32) * 600,
        bits: CompactTarget::from_consensus(0),
        nonce: self.nonce,
      },
      txdata,
    };
    let hash = block.block_hash();
    for tx in &block.txdata {
      let txid = tx.compute_txid();
      for i in &tx.input {
        state.utxos.remove(&i.previous_output);
      }
      for (vout, o) in tx.output.iter().enumerate() {
        state.utxos.insert(
          OutPoint {
            txid,
            vout: vout as u32,
          },
          o.value,
        );
      }
      state.transactions.insert(txid, tx.clone());
      state.txid_to_block_height.insert(txid, height as u32);
    }
    state.blocks.insert(hash, block.clone());
    state.hashes.push(hash);
    drop(state);
    self.chain.push(spec.id.clone());
    self.blocks.insert(spec.id.clone(), (hash, labels));
    self.block_ids.insert(hash, spec.id.clone());
    block
  }

  /// Remove the last n blocks from the node's best chain (their transactions
  /// become unknown to the node; spent outputs are restored).
  pub fn pop(&mut self, n: usize) {
    for _ in 0..n {
      let id = self.chain.pop().expect("pop below genesis");
      let mut state = self.handle.state();
      let hash = state.hashes.pop().unwrap();
      let block = state.blocks.remove(&hash).unwrap();
      for tx in block.txdata.iter().rev() {
        let txid = tx.compute_txid();
        for vout in 0..tx.output.len() {
          state.utxos.remove(&OutPoint {
            txid,
            vout: vout as u32,
          });
        }
        state.transactions.remove(&txid);
        state.txid_to_block_height.remove(&txid);
        for i in &tx.input {
          if i.previous_output.is_null() {
            continue;
          }
          if let Some(prev) = state.transactions.get(&i.previous_output.txid) {
            let v = prev.output[i.previous_output.vout as usize].value;
            state.utxos.insert(i.previous_output, v);
          }
        }
      }
      drop(state);
      let _ = id;
    }
  }

  pub fn block_label(&self, hash: &BlockHash) -> String {
    if let Some(id) = self.block_ids.get(hash) {
      return id.clone();
    }
    "g".into()
  }
}
