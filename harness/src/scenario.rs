//! Abstract scenario vocabulary shared by TLC-generated scenarios, the seeded
//! random generators and the committed regression scenarios (DESIGN appendix D).
//! Values are in units of K sats; every object is referred to by a label.

use serde::{Deserialize, Serialize};

/// stands for u64::MAX in mint-term heights and offsets (TLC integers are 32-bit)
pub const HUGE: u64 = 2_000_000_000;

pub const K: u64 = 1_000_000; // sats per unit
pub const SUBSIDY_UNITS: u64 = 5_000;

#[derive(Clone, Debug, Default, Serialize, Deserialize)]
pub struct Scenario {
  pub name: String,
  #[serde(default = "regtest")]
  pub chain: String,
  /// subset of sats, runes, addresses, transactions, noinscriptions
  #[serde(default)]
  pub flags: Vec<String>,
  #[serde(default, skip_serializing_if = "Option::is_none")]
  pub commit_interval: Option<usize>,
  #[serde(default, skip_serializing_if = "Option::is_none")]
  pub savepoint_interval: Option<usize>,
  #[serde(default, skip_serializing_if = "Option::is_none")]
  pub max_savepoints: Option<usize>,
  pub steps: Vec<Step>,
}

fn regtest() -> String {
  "regtest".into()
}

#[derive(Clone, Debug, Serialize, Deserialize)]
#[serde(tag = "op", rename_all = "lowercase")]
pub enum Step {
  /// append a block to the node's best chain
  Block(BlockSpec),
  /// remove the last n blocks from the node's best chain
  Pop { n: usize },
  /// append n plain blocks (one taproot coinbase output of the full subsidy each) with ids
  /// "<prefix><i>"; only the last `keep` coinbase outputs are reported to the specification
  Skip { prefix: String, n: usize, keep: usize },
  /// Index::update()
  Update,
  /// drop and reopen the index
  Reopen,
  /// run update() in a child process that aborts at point:occ, then reopen
  Crash { point: String, occ: u64 },
  /// log the full projected state
  State,
  /// index the node's current chain (up to `limit` blocks) from scratch in a second directory
  /// and log its digest
  Fresh {
    #[serde(default, skip_serializing_if = "Option::is_none")]
    limit: Option<u32>,
  },
}

#[derive(Clone, Debug, Default, Serialize, Deserialize)]
pub struct BlockSpec {
  pub id: String,
  #[serde(default)]
  pub txs: Vec<TxSpec>,
  /// coinbase outputs; the coinbase transaction's label is "c" + block id
  #[serde(default)]
  pub cb: Vec<OutSpec>,
  /// the coinbase is byte-identical to the coinbase of this earlier block (same txid, pre-BIP34 style):
  /// its label is "c" + that block's id and its outputs displace the older ones
  #[serde(default, skip_serializing_if = "Option::is_none")]
  pub dup: Option<String>,
}

#[derive(Clone, Debug, Default, Serialize, Deserialize)]
pub struct TxSpec {
  pub label: String,
  /// outpoint labels "<tx label>:<vout>"
  pub ins: Vec<String>,
  pub outs: Vec<OutSpec>,
  #[serde(default)]
  pub envs: Vec<EnvSpec>,
  #[serde(default, skip_serializing_if = "Option::is_none")]
  pub stone: Option<StoneSpec>,
  /// inputs whose witness tapscript pushes the commitment of a rune name
  #[serde(default)]
  pub commits: Vec<CommitSpec>,
  /// junk decoration class (C16), opaque to the ledger semantics
  #[serde(default, skip_serializing_if = "Option::is_none")]
  pub junk: Option<String>,
}

#[derive(Clone, Debug, Default, Serialize, Deserialize)]
pub struct OutSpec {
  /// value in units
  pub v: u64,
  /// tr | wpkh | opret | empty
  #[serde(default = "tr")]
  pub t: String,
  /// script id: outputs with the same (t, s) pay the same script
  #[serde(default)]
  pub s: u32,
}

fn tr() -> String {
  "tr".into()
}

#[derive(Clone, Debug, Default, Serialize, Deserialize)]
pub struct EnvSpec {
  /// label of the inscription; also its body
  pub label: String,
  pub input: usize,
  /// pointer in units
  #[serde(default, skip_serializing_if = "Option::is_none")]
  pub pointer: Option<u64>,
  #[serde(default)]
  pub even: bool,
  #[serde(default)]
  pub dup: bool,
  #[serde(default)]
  pub incomplete: bool,
  #[serde(default)]
  pub pushnum: bool,
  #[serde(default)]
  pub stutter: bool,
  /// labels of purported parents; a label that names no inscription yields a random id
  #[serde(default)]
  pub parents: Vec<String>,
  #[serde(default, skip_serializing_if = "Option::is_none")]
  pub delegate: Option<String>,
  /// text/plain (hidden from collections) instead of image/png
  #[serde(default)]
  pub hidden: bool,
  /// content type class: png (default) | text | html | absent | invalid
  #[serde(default, skip_serializing_if = "Option::is_none")]
  pub ct: Option<String>,
  /// content encoding class: none (default) | br (body is brotli-compressed) | gzip (label only) | invalid
  #[serde(default, skip_serializing_if = "Option::is_none")]
  pub enc: Option<String>,
  /// no body at all
  #[serde(default)]
  pub nobody: bool,
}

#[derive(Clone, Debug, Default, Serialize, Deserialize)]
pub struct CommitSpec {
  pub input: usize,
  pub name: String,
}

#[derive(Clone, Debug, Default, Serialize, Deserialize)]
pub struct TermsSpec {
  #[serde(default, skip_serializing_if = "Option::is_none")]
  pub cap: Option<u64>,
  #[serde(default, skip_serializing_if = "Option::is_none")]
  pub amount: Option<u64>,
  #[serde(default, skip_serializing_if = "Option::is_none")]
  pub hs: Option<u64>,
  #[serde(default, skip_serializing_if = "Option::is_none")]
  pub he: Option<u64>,
  #[serde(default, skip_serializing_if = "Option::is_none")]
  pub os: Option<u64>,
  #[serde(default, skip_serializing_if = "Option::is_none")]
  pub oe: Option<u64>,
}

#[derive(Clone, Debug, Default, Serialize, Deserialize)]
pub struct EtchSpec {
  /// rune name; None = unnamed (reserved allocation)
  #[serde(default, skip_serializing_if = "Option::is_none")]
  pub name: Option<String>,
  #[serde(default, skip_serializing_if = "Option::is_none")]
  pub premine: Option<u64>,
  #[serde(default, skip_serializing_if = "Option::is_none")]
  pub terms: Option<TermsSpec>,
}

#[derive(Clone, Debug, Default, Serialize, Deserialize)]
pub struct EdictSpec {
  /// label of the etching transaction of the rune, "self" for id 0:0, or "none" for an id that names no rune
  pub rune: String,
  pub amount: u64,
  pub output: u32,
}

#[derive(Clone, Debug, Default, Serialize, Deserialize)]
pub struct StoneSpec {
  #[serde(default)]
  pub edicts: Vec<EdictSpec>,
  #[serde(default, skip_serializing_if = "Option::is_none")]
  pub etching: Option<EtchSpec>,
  /// label of the etching transaction of the rune to mint
  #[serde(default, skip_serializing_if = "Option::is_none")]
  pub mint: Option<String>,
  #[serde(default, skip_serializing_if = "Option::is_none")]
  pub pointer: Option<u32>,
  /// None = well-formed runestone; otherwise a flaw class that makes it a cenotaph:
  /// evenTag | flag | trailing | truncated | edictOutput | edictRuneId | opcode | varint | supply
  #[serde(default, skip_serializing_if = "Option::is_none")]
  pub flaw: Option<String>,
}
