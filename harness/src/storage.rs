//! C35 (storage encodings) and C28 (properties) on the real code, through the guarded wrappers.

use {
  crate::{runner::{Opts, Runner}, sample::limbs, scenario::Scenario},
  anyhow::Result,
  bitcoin::{OutPoint, Txid, hashes::Hash},
  ord::{Attributes, Index, Inscription, InscriptionId, Item, Properties, Trait, Traits, index::RuneEntry},
  ordinals::{Rune, RuneId, Sat, SatPoint, SpacedRune, Terms},
  rand::{Rng, SeedableRng, rngs::StdRng, seq::SliceRandom},
  serde_json::{Value, json},
  std::io::Write,
};

fn ranges_json(r: &[(u64, u64)]) -> Value {
  json!(r.iter().map(|(a, b)| json!([limbs(*a as u128), limbs(*b as u128)])).collect::<Vec<_>>())
}

fn view_json(v: &ord_view::View) -> Value {
  json!({"value": limbs(v.value as u128), "ranges": v.ranges.as_ref().map(|r| ranges_json(r)).unwrap_or(json!("absent")),
    "script": v.script.clone().map(|s| json!(s)).unwrap_or(json!("absent")),
    "ins": v.ins.as_ref().map(|i| json!(i.iter().map(|(s, o)| json!([s, limbs(*o as u128)])).collect::<Vec<_>>())).unwrap_or(json!("absent"))})
}

mod ord_view {
  pub struct View {
    pub value: u64,
    pub ranges: Option<Vec<(u64, u64)>>,
    pub script: Option<Vec<u8>>,
    pub ins: Option<Vec<(u32, u64)>>,
  }
}

fn gen_ranges(rng: &mut StdRng) -> Vec<(u64, u64)> {
  let supply = Sat::SUPPLY;
  let n = [0usize, 1, 2, 5, 40][rng.gen_range(0..5)];
  (0..n)
    .map(|_| {
      let len = [1u64, 2, 5_000_000_000, 4_999_999_999, 2_500_000_000, rng.gen_range(1..=5_000_000_000)][rng.gen_range(0..6)];
      let base = match rng.gen_range(0..4) {
        0 => 0,
        1 => supply - len,
        2 => (1u64 << 50) - 1,
        _ => rng.gen_range(0..supply - len),
      };
      (base, base + len)
    })
    .collect()
}

pub fn run(seed: u64, n: usize, out: &str) -> Result<()> {
  if std::env::var("ORDV_SHOW_PANICS").is_err() {
    std::panic::set_hook(Box::new(|_| {}));
  }
  let mut rng = StdRng::seed_from_u64(seed);
  let mut f = std::io::BufWriter::new(std::fs::File::create(out)?);
  // packed sat ranges
  let supply = Sat::SUPPLY;
  let mut cases: Vec<(u64, u64)> = vec![(0, 1), (0, 5_000_000_000), (supply - 1, supply), (supply - 5_000_000_000, supply),
    ((1 << 50) - 1, (1 << 50)), ((1 << 50), (1 << 50) + 5_000_000_000), (1, 1), (2_099_999_997_689_999, 2_099_999_997_690_000)];
  for _ in 0..n {
    cases.extend(gen_ranges(&mut rng));
  }
  for (a, b) in cases {
    let (bytes, back) = Index::verif_sat_range_roundtrip((a, b));
    writeln!(f, "{}", json!({"f": "satrange", "a": limbs(a as u128), "b": limbs(b as u128), "bytes": bytes.to_vec(),
      "back": [limbs(back.0 as u128), limbs(back.1 as u128)]}))?;
  }
  // utxo entries under every flag subset (a real index per subset)
  let flagsets: Vec<Vec<&str>> = vec![vec![], vec!["sats"], vec!["addresses"], vec!["sats", "addresses"], vec!["noinscriptions", "sats"],
    vec!["noinscriptions", "addresses"], vec!["noinscriptions", "sats", "addresses"], vec!["runes"]];
  for flags in flagsets {
    let sc = Scenario { name: "storage".into(), chain: "regtest".into(), flags: flags.iter().map(|s| s.to_string()).collect(), steps: vec![], ..Default::default() };
    let mut r = Runner::new(sc, Opts::default())?;
    r.open()?;
    let index = r.index();
    let has_sats = flags.contains(&"sats");
    let has_addr = flags.contains(&"addresses");
    let has_insc = !flags.contains(&"noinscriptions");
    let fl = json!({"sats": has_sats, "addresses": has_addr, "inscriptions": has_insc});
    let mut gen_input = |rng: &mut StdRng| -> (u64, Vec<(u64, u64)>, Vec<u8>, Vec<(u32, u64)>) {
      let ranges = gen_ranges(rng);
      let value = if has_sats { ranges.iter().map(|(a, b)| b - a).sum() } else { [0u64, 1, 546, u32::MAX as u64 + 7, 21_000_000 * 100_000_000][rng.gen_range(0..5)] };
      let script: Vec<u8> = (0..[0usize, 1, 22, 34, 127, 128, 300][rng.gen_range(0..7)]).map(|_| rng.r#gen()).collect();
      let ins: Vec<(u32, u64)> = (0..[0usize, 1, 3, 12][rng.gen_range(0..4)])
        .map(|_| ([0u32, 1, 255, 65536, u32::MAX][rng.gen_range(0..5)], [0u64, 1, 127, 128, 16383, 16384, u64::MAX >> 1, rng.r#gen::<u64>() >> 10][rng.gen_range(0..8)]))
        .collect();
      (value, ranges, script, ins)
    };
    let to_json = |v: (u64, &Vec<(u64, u64)>, &Vec<u8>, &Vec<(u32, u64)>)| -> Value {
      json!({"value": limbs(v.0 as u128), "ranges": if has_sats { ranges_json(v.1) } else { json!("absent") },
        "script": if has_addr { json!(v.2) } else { json!("absent") },
        "ins": if has_insc { json!(v.3.iter().map(|(s, o)| json!([s, limbs(*o as u128)])).collect::<Vec<_>>()) } else { json!("absent") }})
    };
    for _ in 0..n / 2 {
      let a = gen_input(&mut rng);
      let input = ord_input(&a);
      let back = index.verif_utxo_roundtrip(&input);
      let view = ord_view::View { value: back.value, ranges: back.ranges, script: back.script, ins: back.inscriptions };
      writeln!(f, "{}", json!({"f": "utxo", "flags": fl, "written": to_json((a.0, &a.1, &a.2, &a.3)), "read": view_json(&view)}))?;
      // the pseudo-outputs have no script and, without the sat index, no value
      let pseudo = |mut x: (u64, Vec<(u64, u64)>, Vec<u8>, Vec<(u32, u64)>)| {
        x.2 = Vec::new();
        if !has_sats {
          x.0 = 0;
        }
        x
      };
      let a = pseudo(a);
      let b = pseudo(gen_input(&mut rng));
      let merged = index.verif_utxo_merged(&ord_input(&a), &ord_input(&b));
      let view = ord_view::View { value: merged.value, ranges: merged.ranges, script: merged.script, ins: merged.inscriptions };
      writeln!(f, "{}", json!({"f": "merge", "flags": fl, "a": to_json((a.0, &a.1, &a.2, &a.3)), "b": to_json((b.0, &b.1, &b.2, &b.3)), "merged": view_json(&view)}))?;
    }
  }
  // entries and ids
  for _ in 0..n {
    let big = |rng: &mut StdRng| -> u128 { [0u128, 1, u64::MAX as u128, u128::MAX, rng.r#gen::<u128>() >> rng.gen_range(0..128)][rng.gen_range(0..5)] };
    let txid = Txid::from_byte_array(rng.r#gen());
    let op = OutPoint { txid, vout: [0u32, 1, u32::MAX, rng.r#gen()][rng.gen_range(0..4)] };
    let sp = SatPoint { outpoint: op, offset: [0u64, 1, u64::MAX, rng.r#gen()][rng.gen_range(0..4)] };
    let op2 = Index::verif_outpoint_roundtrip(op);
    let sp2 = Index::verif_satpoint_roundtrip(sp);
    writeln!(f, "{}", json!({"f": "points", "written": [op.txid.to_string(), op.vout, limbs(sp.offset as u128)], "read": [op2.txid.to_string(), op2.vout, limbs(sp2.offset as u128)],
      "spSame": sp2.outpoint == op}))?;
    let rid = RuneId { block: [0u64, 1, 840_000, u64::MAX][rng.gen_range(0..4)], tx: [0u32, 1, u32::MAX][rng.gen_range(0..3)] };
    let rid2 = Index::verif_rune_id_roundtrip(rid);
    let iid = InscriptionId { txid, index: [0u32, 1, 255, 256, u32::MAX][rng.gen_range(0..5)] };
    let iid2 = Index::verif_inscription_id_roundtrip(iid);
    writeln!(f, "{}", json!({"f": "ids", "written": [limbs(rid.block as u128), rid.tx, iid.txid.to_string(), iid.index],
      "read": [limbs(rid2.block as u128), rid2.tx, iid2.txid.to_string(), iid2.index]}))?;
    let terms = rng.gen_bool(0.7).then(|| Terms {
      amount: rng.gen_bool(0.6).then(|| big(&mut rng)),
      cap: rng.gen_bool(0.6).then(|| big(&mut rng)),
      height: (rng.gen_bool(0.5).then(|| rng.r#gen()), rng.gen_bool(0.5).then(|| rng.r#gen())),
      offset: (rng.gen_bool(0.5).then(|| rng.r#gen()), rng.gen_bool(0.5).then(|| rng.r#gen())),
    });
    let re = RuneEntry {
      block: rng.r#gen(),
      burned: big(&mut rng),
      divisibility: rng.gen_range(0..=38),
      etching: txid,
      mints: big(&mut rng),
      number: rng.r#gen(),
      premine: big(&mut rng),
      spaced_rune: SpacedRune { rune: Rune(big(&mut rng)), spacers: rng.r#gen::<u32>() & 0x07ff_ffff },
      symbol: [None, Some('$'), Some('\u{1F9FF}'), Some('A')][rng.gen_range(0..4)],
      terms,
      timestamp: rng.r#gen(),
      turbo: rng.gen_bool(0.5),
    };
    let re2 = Index::verif_rune_entry_roundtrip(re);
    let rj = |e: &RuneEntry| -> Value {
      let t = e.terms;
      let o = |x: Option<u128>| x.map(|v| json!(limbs(v))).unwrap_or(json!("none"));
      json!([limbs(e.block as u128), limbs(e.burned), e.divisibility, e.etching.to_string(), limbs(e.mints), limbs(e.number as u128), limbs(e.premine),
        limbs(e.spaced_rune.rune.0), e.spaced_rune.spacers, e.symbol.map(|c| c as u32).unwrap_or(0), limbs(e.timestamp as u128), e.turbo, t.is_some(),
        o(t.and_then(|t| t.amount)), o(t.and_then(|t| t.cap)), o(t.and_then(|t| t.height.0.map(u128::from))), o(t.and_then(|t| t.height.1.map(u128::from))),
        o(t.and_then(|t| t.offset.0.map(u128::from))), o(t.and_then(|t| t.offset.1.map(u128::from)))])
    };
    writeln!(f, "{}", json!({"f": "entry", "kind": "rune", "written": rj(&re), "read": rj(&re2)}))?;
  }
  // C28: properties
  let dir = tempfile::TempDir::new()?;
  let path = dir.path().join("x.txt");
  std::fs::write(&path, b"hello")?;
  for _ in 0..n {
    let mk_traits = |rng: &mut StdRng| -> Traits {
      let k = [0usize, 1, 3, 8][rng.gen_range(0..4)];
      Traits {
        items: (0..k)
          .map(|i| {
            let name = format!("{}{i}", ["t", "trait-with-a-long-name-", "é", ""][rng.gen_range(0..4)]);
            let v = match rng.gen_range(0..4) {
              0 => Trait::Bool(rng.gen_bool(0.5)),
              1 => Trait::Integer([0i64, -1, i64::MAX, i64::MIN, 42][rng.gen_range(0..5)]),
              2 => Trait::Null,
              _ => Trait::String(["", "x", "a longer string value with spaces"][rng.gen_range(0..3)].to_string()),
            };
            (name, v)
          })
          .collect(),
      }
    };
    let n_items = [0usize, 1, 2, 7, 40][rng.gen_range(0..5)];
    let shared: [u8; 32] = rng.r#gen();
    let gallery: Vec<Item> = (0..n_items)
      .map(|_| Item {
        id: Some(InscriptionId { txid: Txid::from_byte_array(if rng.gen_bool(0.5) { shared } else { rng.r#gen() }), index: [0u32, 0, 1, 7, u32::MAX][rng.gen_range(0..5)] }),
        attributes: Attributes { title: rng.gen_bool(0.4).then(|| "item".to_string()), traits: mk_traits(&mut rng) },
        index: None,
      })
      .collect();
    let p = Properties { gallery, attributes: Attributes { title: rng.gen_bool(0.5).then(|| "title".to_string()), traits: mk_traits(&mut rng) }, txids: Vec::new() };
    let pj = |p: &Properties| -> Value {
      let tj = |t: &Traits| -> Value { json!(t.items.iter().map(|(n, v)| json!([n, match v { Trait::Bool(b) => format!("b:{b}"), Trait::Integer(i) => format!("i:{i}"), Trait::Null => "null".to_string(), Trait::String(s) => format!("s:{s}") }])).collect::<Vec<_>>()) };
      json!({"title": p.attributes.title.clone().unwrap_or("<none>".into()), "traits": tj(&p.attributes.traits), "txids": p.txids.len(),
        "gallery": p.gallery.iter().map(|i| json!({"id": i.id.map(|x| x.to_string()).unwrap_or("<none>".into()), "index": i.index.map(|x| x as i64).unwrap_or(-1),
          "title": i.attributes.title.clone().unwrap_or("<none>".into()), "traits": tj(&i.attributes.traits)})).collect::<Vec<_>>()})
    };
    let empty = p == Properties::default();
    let inline = ord::verif::properties_to_inline_cbor(&p);
    let packed = if p.gallery.iter().all(|i| i.id.is_some()) { ord::verif::properties_to_packed_cbor(&p) } else { None };
    let back_inline = inline.as_ref().map(|c| pj(&ord::verif::properties_from_cbor(c))).unwrap_or(json!("none"));
    let back_packed = packed.as_ref().map(|c| pj(&ord::verif::properties_from_cbor(c))).unwrap_or(json!("none"));
    let mut via = Vec::new();
    for compress in [false, true] {
      let i = Inscription::new(ord::Chain::Regtest, compress, None, None, None, vec![], Some(path.clone()), None, p.clone(), None)?;
      let back = ord::verif::inscription_properties(&i);
      via.push(json!({"compress": compress, "encoding": i.property_encoding.clone().map(|e| String::from_utf8_lossy(&e).to_string()).unwrap_or("none".into()),
        "len": i.properties.as_ref().map(|x| x.len()).unwrap_or(0), "back": pj(&back)}));
    }
    writeln!(f, "{}", json!({"f": "props", "empty": empty, "p": pj(&p), "inlineLen": inline.as_ref().map(|c| c.len()).unwrap_or(0),
      "packedLen": packed.as_ref().map(|c| c.len()).unwrap_or(0), "inline": back_inline, "packed": back_packed, "via": via}))?;
  }
  // what the encoder accepts, the decoder must accept: titles made of r incompressible letters followed by a
  // compressible run, swept through the 30:1 compression-ratio limit in steps well below 1/30 of the length
  for r in [400usize, 1500] {
    let head: String = (0..r).map(|_| (b'a' + rng.gen_range(0..26u8)) as char).collect();
    let mut z = 12 * r;
    while z <= 40 * r {
      let title = format!("{head}{}", "q".repeat(z));
      let p = Properties { gallery: Vec::new(), attributes: Attributes { title: Some(title), traits: Traits { items: Vec::new() } }, txids: Vec::new() };
      match Inscription::new(ord::Chain::Regtest, true, None, None, None, vec![], Some(path.clone()), None, p.clone(), None) {
        Ok(i) => {
          let back = ord::verif::inscription_properties(&i);
          let raw = ord::verif::properties_to_inline_cbor(&p).map(|c| c.len()).unwrap_or(0);
          writeln!(f, "{}", json!({"f": "ratio", "st": "encoded", "rawLen": raw, "encLen": i.properties.as_ref().map(|x| x.len()).unwrap_or(0),
            "encoding": i.property_encoding.clone().map(|e| String::from_utf8_lossy(&e).to_string()).unwrap_or("none".into()),
            "same": back == p, "backTitleLen": back.attributes.title.map(|t| t.len() as i64).unwrap_or(-1)}))?;
        }
        Err(e) => {
          writeln!(f, "{}", json!({"f": "ratio", "st": "refused", "rawLen": r + z, "encLen": 0, "encoding": "none", "same": true, "backTitleLen": -1,
            "err": e.to_string().chars().take(80).collect::<String>()}))?;
        }
      }
      z += r / 5;
    }
  }
  // bounded decompression
  for size in [10usize, 1000, 20_000, 200_000, 3_999_000, 4_000_000, 4_000_001, 6_000_000, 30_000_000] {
    for fill in [0u8, 1] {
      let data: Vec<u8> = if fill == 0 { vec![0u8; size] } else { (0..size).map(|i| (i % 251) as u8).collect() };
      let compressed = crate::node::brotli_bytes(&data);
      let i = Inscription { properties: Some(compressed.clone()), property_encoding: Some(b"br".to_vec()), ..Default::default() };
      let got = std::panic::catch_unwind(move || i.verif_properties_cbor_len());
      let (st, len) = match got {
        Ok(Some(l)) => ("some", l as i64),
        Ok(None) => ("none", -1),
        Err(_) => ("panic", -1),
      };
      writeln!(f, "{}", json!({"f": "bomb", "inLen": compressed.len(), "rawLen": size, "st": st, "outLen": len}))?;
    }
  }
  // ratios around the 30:1 limit: r incompressible bytes followed by zeros
  for r in [200usize, 5_000, 140_000] {
    for k in [10usize, 25, 28, 29, 30, 31, 32, 40] {
      let mut data: Vec<u8> = (0..r).map(|_| rng.r#gen()).collect();
      data.extend(vec![0u8; r * k - r]);
      let compressed = crate::node::brotli_bytes(&data);
      let i = Inscription { properties: Some(compressed.clone()), property_encoding: Some(b"br".to_vec()), ..Default::default() };
      let got = std::panic::catch_unwind(move || i.verif_properties_cbor_len());
      let (st, len) = match got {
        Ok(Some(l)) => ("some", l as i64),
        Ok(None) => ("none", -1),
        Err(_) => ("panic", -1),
      };
      writeln!(f, "{}", json!({"f": "bomb", "inLen": compressed.len(), "rawLen": data.len(), "st": st, "outLen": len}))?;
    }
  }
  // arbitrary bytes
  for _ in 0..n {
    let len = rng.gen_range(0..120);
    let bytes: Vec<u8> = (0..len).map(|_| rng.r#gen()).collect();
    let enc: Option<Vec<u8>> = [None, Some(b"br".to_vec()), Some(b"gzip".to_vec()), Some(vec![0xff])].choose(&mut rng).unwrap().clone();
    let i = Inscription { properties: Some(bytes), property_encoding: enc, ..Default::default() };
    let r = std::panic::catch_unwind(move || ord::verif::inscription_properties(&i).gallery.len());
    writeln!(f, "{}", json!({"f": "propsRandom", "panic": r.is_err()}))?;
  }
  Ok(())
}

fn ord_input<'a>(a: &'a (u64, Vec<(u64, u64)>, Vec<u8>, Vec<(u32, u64)>)) -> ord::index::VerifUtxoInput<'a> {
  ord::index::VerifUtxoInput { value: a.0, ranges: &a.1, script: &a.2, inscriptions: &a.3 }
}
