"""C20: ordinal-aware sends (TransactionBuilder)."""
import json
import os
import re
import time

from common import (WORK, Outcome, ToolError, known_keys, log, ordv, parse_trace_result, read_ndjson, run_tlc)


def model_configs(cfgname, timeout):
    """Run SendModel exhaustively with the Dump invariant; returns (configs path, tlc result)."""
    tmpcfg = os.path.join(WORK, "SendModel-dump.cfg")
    with open(os.path.join("/verif/spec", cfgname)) as f:
        text = f.read().replace("INVARIANTS ", "INVARIANTS Dump ")
    with open(tmpcfg, "w") as f:
        f.write(text)
    res = run_tlc("SendModel.tla", tmpcfg, workers=8, timeout=timeout, deque=False)
    if res["timeout"]:
        raise ToolError("SendModel timed out")
    out = os.path.join(WORK, "send-model-configs.ndjson")
    n = 0
    with open(out, "w") as f:
        for m in re.finditer(r'<<"CFG", "(.*)">>', res["out"]):
            f.write(m.group(1).replace('\\"', '"') + "\n")
            n += 1
    return out, n, res


def validate(prop_env, trace, outcome, verdict=True):
    res = run_tlc("SendTrace.tla", "SendTrace.cfg", env={"TRACE": trace, "PROP": prop_env}, timeout=3000)
    if res["timeout"]:
        raise ToolError("SendTrace timed out")
    matched, total, fails, known = parse_trace_result(res["out"])
    if matched is None:
        log(res["out"][-2000:])
        raise ToolError("SendTrace gave no verdict")
    if not verdict:
        if matched != total:
            detail = res["out"][res["out"].find('"FAIL"'):][:700].replace("\n", " ")
            outcome.notes.append("MODEL-DRIFT spec=SendBuilder event=%d %s" % (matched + 1, detail))
        return matched, total, res
    listed = known_keys("C20")
    lines = None
    for k in sorted(set(known)):
        if k in listed:
            outcome.known.append("%s: %s" % (k, listed[k]["title"]))
        else:
            lines = lines or read_ndjson(trace)
            m = re.search(r'"KNOWN",\s*"%s",\s*"line",\s*(\d+)' % re.escape(k), res["out"])
            ln = int(m.group(1)) if m else 1
            outcome.violation("assertion class %s reached (not a recorded finding): %s" % (k, json.dumps(lines[ln - 1]["obs"])[:300]),
                              {"property": "C20", "kind": "send", "config": lines[ln - 1]["cfg"], "obs": lines[ln - 1]["obs"]})
    if matched != total:
        lines = lines or read_ndjson(trace)
        detail = res["out"][res["out"].find('"FAIL"'):][:600].replace("\n", " ")
        outcome.violation("rejected at line %d (%s): %s" % (matched + 1, ",".join(fails[:2]), detail),
                          {"property": "C20", "kind": "send", "config": lines[matched]["cfg"], "obs": lines[matched]["obs"],
                           "fails": fails})
    return matched, total, res


def run(prop, tier, seed):
    t0 = time.time()
    outcome = Outcome(prop)
    # level A + spec -> impl: every configuration of the exhaustive model is executed on the real builder
    cfgname = "SendModel.cfg" if tier == "quick" else "SendModel_big.cfg"
    cfgs, n_model, mres = model_configs(cfgname, 1500 if tier == "quick" else 7000)
    if not mres["completed"]:
        # the design-level model itself violates a clause or reaches an unrecorded assertion
        detail = mres["out"][mres["out"].find("Error:"):][:1500]
        outcome.violation("SendModel: " + detail.replace("\n", " ")[:700],
                          {"property": "C20", "kind": "send-model", "tlc": detail})
    mtrace = os.path.join(WORK, "send-model-trace.ndjson")
    if n_model:
        ordv(["send", "--configs", cfgs, "--out", mtrace])
        validate("C20", mtrace, outcome)
        validate("DRIFT", mtrace, outcome, verdict=False)
    # impl -> spec: seeded random real-scale wallets
    rcfg = os.path.join(WORK, "send-rand-%d.ndjson" % seed)
    rtrace = os.path.join(WORK, "send-rand-trace-%d.ndjson" % seed)
    n_rand = 2500 if tier == "quick" else 60000
    ordv(["send-gen", "--seed", str(seed), "--n", str(n_rand), "--out", rcfg])
    ordv(["send", "--configs", rcfg, "--out", rtrace])
    validate("C20", rtrace, outcome)
    validate("DRIFT", rtrace, outcome, verdict=False)
    lines = read_ndjson(rtrace) + (read_ndjson(mtrace) if n_model else [])
    classes = {}
    distinct = set()
    for x in lines:
        classes[x["obs"]["st"]] = classes.get(x["obs"]["st"], 0) + 1
        if x["obs"]["st"] == "ok" and len(x["obs"]["ins"]) > 1:
            distinct.add(json.dumps(x["cfg"], sort_keys=True))
    cov = {
        "evaluations": len(lines), "distinct_nontrivial": len(distinct),
        "rule": "every configuration of the exhaustive TLC model (boundary alphabet of wallets) and seeded random real-scale "
                "wallets executed on the real TransactionBuilder::build_transaction under catch_unwind; TLC evaluates the C20 "
                "clauses on each observed result; distinct_nontrivial = distinct wallets whose send succeeded with more than one input",
        "samples": [lines[0], lines[len(lines) // 2]],
        "states": mres.get("distinct", 0), "transitions": mres.get("states", 0),
        "traces_validated_against_impl": 2, "model_configurations": n_model, "random_configurations": n_rand,
        "outcome_classes": classes,
    }
    return outcome, cov, time.time() - t0
