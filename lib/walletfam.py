"""C22 / C23: wallet rune commands and node-funded wallet transactions (WalletRunes / WalletModel / WalletTrace)."""
import json
import os
import time

from common import WORK, Outcome, ToolError, known_keys, log, ordv, parse_trace_result, read_ndjson, run_tlc

FAMILY = ("C21", "C22", "C23", "C24")
MODELS = {"quick": [("WalletModel.cfg", 900)],
          "thorough": [("WalletModel.cfg", 900), ("WalletModel_same.cfg", 900), ("WalletModel_wide.cfg", 3600), ("WalletModel_deep.cfg", 7000)]}


def validate(prop_env, prop, trace, outcome, verdict=True, spec="WalletTrace"):
    res = run_tlc(spec + ".tla", spec + ".cfg", env={"TRACE": trace, "PROP": prop_env}, timeout=3000)
    if res["timeout"]:
        raise ToolError("WalletTrace timed out")
    matched, total, fails, known = parse_trace_result(res["out"])
    if matched is None:
        log(res["out"][-2000:])
        raise ToolError("WalletTrace gave no verdict")
    lines = read_ndjson(trace)
    if not verdict:
        if matched != total:
            detail = res["out"][res["out"].find('"FAIL"'):][:600].replace("\n", " ")
            outcome.notes.append("MODEL-DRIFT spec=%s event=%d %s" % (spec, matched + 1, detail))
        return
    listed = known_keys(prop)
    for k in sorted(set(known)):
        if k in listed:
            outcome.known.append("%s: %s" % (k, listed[k]["title"]))
        else:
            outcome.violation("finding class %s is not a recorded known finding" % k, {"property": prop, "kind": "wallet", "class": k})
    if matched != total:
        detail = res["out"][res["out"].find('"FAIL"'):][:700].replace("\n", " ")
        case = lines[matched]
        context = [x for x in lines[:matched] if x.get("event") == "World"][-1:]
        outcome.violation("rejected at line %d (%s): %s" % (matched + 1, ",".join(fails[:2]), detail),
                          {"property": prop, "kind": "wallet", "case": case, "context": context, "fails": fails,
                           "reproduce": "ordv wallet-runes (tag %s)" % case.get("tag")})


def prove_gate():
    """TLAPS: Offer!GateSound (sign + broadcast => advertised trade) for PSBTs with any number of inputs."""
    import shutil
    import subprocess
    d = os.path.join(WORK, "tlaps-%d" % os.getpid())
    shutil.rmtree(d, ignore_errors=True)
    os.makedirs(d)
    for f in ("Offer.tla", "OfferProofs.tla"):
        shutil.copy(os.path.join("/verif/spec", f), d)
    r = subprocess.run(["timeout", "900", "tlapm", "--threads", "4", "OfferProofs.tla"], cwd=d, stdout=subprocess.PIPE,
                       stderr=subprocess.STDOUT, text=True)
    shutil.rmtree(d, ignore_errors=True)
    import re
    m = re.search(r"All (\d+) obligations? proved", r.stdout)
    if not m:
        log(r.stdout[-2000:])
        raise ToolError("tlapm did not prove OfferProofs.tla")
    return int(m.group(1))


def run_offers(prop, tier, seed):
    t0 = time.time()
    outcome = Outcome(prop)
    cfg = "OfferModel.cfg" if tier == "quick" else "OfferModel_3.cfg"
    res = run_tlc("OfferModel.tla", cfg, workers=8, timeout=1800, deque=False)
    if res["timeout"]:
        raise ToolError("OfferModel timed out")
    if not res["completed"]:
        detail = res["out"][res["out"].find("Error:"):][:1500]
        outcome.violation("OfferModel: " + detail.replace("\n", " ")[:700], {"property": prop, "kind": "offer-model", "tlc": detail})
    proved = prove_gate()
    worlds, cases = (1, 150) if tier == "quick" else (6, 300)
    trace = os.path.join(WORK, "wallet-offers-%s-%d.ndjson" % (tier, seed))
    ordv(["wallet-offers", "--seed", str(seed), "--worlds", str(worlds), "--cases", str(cases), "--out", trace], timeout=14000)
    validate(prop, prop, trace, outcome, spec="OfferTrace")
    validate("DRIFT", prop, trace, outcome, verdict=False, spec="OfferTrace")
    lines = [x for x in read_ndjson(trace) if x["event"] == "Offer"]
    classes = {}
    distinct = set()
    for x in lines:
        k = "broadcast" if x["ok"] else " ".join(w for w in x["err"].split()[1:5] if len(w) < 20 and not w.startswith("`"))
        classes[k] = classes.get(k, 0) + 1
        distinct.add(json.dumps([x["ins"], x["claim"], x["changeEq"]], sort_keys=True))
    cov = {"evaluations": len(lines), "distinct_nontrivial": len(distinct),
           "rule": "PSBTs built by damaging a well-formed offer with up to 3 mutations (seller input replaced by any wallet output class: one "
                   "inscription, two inscriptions, inscription+runes, runes only, cardinal; extra wallet or foreign inputs; signature flags "
                   "none/standard/not-preserved on any input; named amount or price off by 1; another inscription named; input order changed) "
                   "presented to the real `ord wallet offer accept` (subprocess, mock node, real explorer); contents of the spent outputs are "
                   "read from the real index; distinct_nontrivial = distinct (inputs, named inscription, balance) shapes",
           "samples": [lines[0], lines[len(lines) // 2]], "states": res.get("distinct", 0), "transitions": res.get("states", 0),
           "traces_validated_against_impl": 1, "outcome_classes": classes, "tlaps_obligations_proved": proved}
    return outcome, cov, time.time() - t0


def run_batch(prop, tier, seed):
    t0 = time.time()
    outcome = Outcome(prop)
    res = run_tlc("BatchModel.tla", "BatchModel.cfg" if tier == "quick" else "BatchModel_big.cfg", workers=4, timeout=1800, deque=False)
    if res["timeout"]:
        raise ToolError("BatchModel timed out")
    if not res["completed"]:
        detail = res["out"][res["out"].find("Error:"):][:1500]
        outcome.violation("BatchModel: " + detail.replace("\n", " ")[:700], {"property": prop, "kind": "batch-model", "tlc": detail})
    worlds, ops = (2, 10) if tier == "quick" else (12, 25)
    trace = os.path.join(WORK, "wallet-batch-%s-%d.ndjson" % (tier, seed))
    ordv(["wallet-batch", "--seed", str(seed), "--worlds", str(worlds), "--ops", str(ops), "--out", trace], timeout=20000)
    validate(prop, prop, trace, outcome, spec="BatchTrace")
    validate("DRIFT", prop, trace, outcome, verdict=False, spec="BatchTrace")
    lines = [x for x in read_ndjson(trace) if x["event"] == "Batch"]
    classes = {}
    distinct = set()
    for x in lines:
        k = "%s:%s%s" % (x["mode"], "ok" if x["ok"] else "refused", "+etching" if x["etch"] else "")
        classes[k] = classes.get(k, 0) + 1
        if x["ok"] and (x["count"] > 1 or x["nparents"] > 0 or x["etch"]):
            distinct.add(json.dumps([x["mode"], x["count"], x["postages"], x["parents"], x["etch"], x["premine"], x["subject"]]))
    cov = {"evaluations": len(lines), "distinct_nontrivial": len(distinct),
           "rule": "seeded random batch files (mode x 1-4 inscriptions x postage {default, 777, 3000, 12345} x 0-2 parents in either order x "
                   "optional per-inscription destinations, metadata, delegate x optional etching with premine {0, 25, 1000}, with/without "
                   "terms; satpoints mode on small cardinal outputs; same-sat on a chosen cardinal satpoint or reinscribing a held "
                   "inscription; fee rates 1/2.5/5) run through the real `ord wallet batch` against a wallet that also holds inscribed, runic "
                   "and inscribed+runic outputs; commit and reveal are mined (etching batches wait for maturity while blocks are mined) and "
                   "the real index is read back; distinct_nontrivial = distinct successful batch shapes with several inscriptions, parents "
                   "or an etching",
           "samples": [lines[0], lines[len(lines) // 2]], "states": res.get("distinct", 0), "transitions": res.get("states", 0),
           "traces_validated_against_impl": 1, "outcome_classes": classes}
    return outcome, cov, time.time() - t0


def run(prop, tier, seed):
    if prop == "C24":
        return run_offers(prop, tier, seed)
    if prop == "C21":
        return run_batch(prop, tier, seed)
    t0 = time.time()
    outcome = Outcome(prop)
    states = distinct = 0
    runs = []
    for cfg, timeout in MODELS[tier]:
        res = run_tlc("WalletModel.tla", cfg, workers=8, timeout=timeout, deque=False)
        if res["timeout"]:
            raise ToolError("WalletModel %s timed out" % cfg)
        if not res["completed"]:
            detail = res["out"][res["out"].find("Error:"):][:1500]
            outcome.violation("WalletModel %s: %s" % (cfg, detail.replace("\n", " ")[:700]), {"property": prop, "kind": "wallet-model", "cfg": cfg, "tlc": detail})
        states += res.get("states", 0)
        distinct += res.get("distinct", 0)
        runs.append({"cfg": cfg, "states": res.get("states"), "distinct": res.get("distinct"), "wall_s": round(res["wall"], 1)})
    worlds, ops, dry = (3, 7, 40) if tier == "quick" else (16, 9, 120)
    trace = os.path.join(WORK, "wallet-runes-%s-%d.ndjson" % (tier, seed))
    if not (os.path.exists(trace) and os.environ.get("VERIF_REUSE_TRACE") == "1"):
        ordv(["wallet-runes", "--seed", str(seed), "--worlds", str(worlds), "--ops", str(ops), "--dry-splits", str(dry), "--out", trace],
             timeout=14000)
    validate(prop, prop, trace, outcome)
    validate("DRIFT", prop, trace, outcome, verdict=False)
    # behaviour beyond the listed properties: `ord wallet balance` against the wallet's outputs (notes only)
    validate("VIEW", prop, trace, outcome, verdict=False)
    lines = [x for x in read_ndjson(trace) if x["event"] == "Op"]
    classes = {}
    nontrivial = set()
    for x in lines:
        k = "%s:%s" % (x["kind"], "ok" if x["ok"] else x["err"].split(":")[0])
        classes[k] = classes.get(k, 0) + 1
        if x.get("hasTx") and (len(x["tx"]["ins"]) > 1 or len(x["tx"]["edicts"]) > 1):
            nontrivial.add(json.dumps([x["kind"], x["req"], x["inv"]], sort_keys=True))
    cov = {"evaluations": len(lines), "distinct_nontrivial": len(nontrivial),
           "rule": "seeded random wallets on a mock node (1-3 runes with divisibility 0-2 etched by raw transactions, 1-4 runic outputs of "
                   "several runes each plus a remainder output, 0-2 inscribed outputs, optionally one output both inscribed and runic, all "
                   "non-cardinal outputs larger than any cardinal one so that an unlocked one would be picked by the node's largest-first "
                   "funding). Per wallet, first every boundary request as a dry run (send and burn of 0, 1 and every prefix sum of the "
                   "holders' balances +-1 per rune; split files over every combination of absent/boundary amount per rune, some spread over "
                   "two outputs), judged on the rune protocol (RuneRules) applied to the returned transaction; then random real "
                   "`ord wallet send|burn|split|mint|send <btc>` commands, each broadcast transaction mined and indexed by the real index and "
                   "judged on the index's balances; distinct_nontrivial = distinct (request, inventory) pairs whose transaction had several "
                   "inputs or several edicts",
           "samples": [lines[0], lines[len(lines) // 2]], "states": distinct, "transitions": states, "level_a_models": runs,
           "traces_validated_against_impl": 1, "outcome_classes": classes}
    return outcome, cov, time.time() - t0
