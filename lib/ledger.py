"""Indexer ledger family: C01-C11, C16, C17, C37 (and C15 via cross-configuration runs)."""
import json
import os
import time

from common import (WORK, Outcome, ToolError, cached_trace, known_keys, log, ordv, parse_trace_result,
                    read_ndjson, run_tlc, write_evidence)

C15_FLAGSETS = ["sats,runes,addresses", "runes", "sats,runes", "runes,addresses,transactions", "runes,transactions",
                "sats", "addresses", "runes,noinscriptions"]

LEDGER_PROPS = ["C15", "C01", "C02", "C03", "C04", "C05", "C06", "C07", "C08", "C09", "C10", "C11",
                "C16", "C17", "C37"]

# what makes a scenario block non-trivial for a property (counted on the Block events of the run)
def _nontrivial(prop, block):
    txs = block.get("txs", [])
    if prop in ("C01", "C02", "C16", "C17"):
        return len(txs) > 0
    if prop in ("C03", "C04", "C05", "C06", "C07", "C37"):
        return any(t.get("envs") for t in txs) or len(txs) > 0 and prop in ("C03", "C04")
    if prop in ("C08", "C09", "C10", "C11"):
        return any("stone" in t for t in txs)
    return len(txs) > 0


def plan(tier):
    """(number of scenarios, blocks per scenario, flag sets, chains)"""
    if tier == "quick":
        return [dict(n=10, blocks=22, flags="sats,runes,addresses", chain="regtest", update_every=3),
                dict(n=3, blocks=125, flags="sats,runes,addresses", chain="regtest", update_every=25),
                dict(n=3, blocks=18, flags="sats,runes", chain="testnet4", update_every=4),
                dict(n=8, blocks=30, flags="sats,runes", chain="regtest", update_every=3, family="runes"),
                dict(n=6, blocks=26, flags="sats,runes,addresses", chain="regtest", update_every=4, family="provenance"),
                dict(n=4, blocks=16, flags="sats,addresses", chain="regtest", update_every=2, family="dup")]
    return [dict(n=120, blocks=30, flags="sats,runes,addresses", chain="regtest", update_every=3),
            dict(n=12, blocks=140, flags="sats,runes,addresses", chain="regtest", update_every=20),
            dict(n=40, blocks=24, flags="sats,runes,addresses,transactions", chain="testnet4", update_every=5),
            dict(n=40, blocks=24, flags="runes", chain="regtest", update_every=2),
            dict(n=30, blocks=24, flags="sats", chain="regtest", update_every=1),
            dict(n=80, blocks=40, flags="sats,runes", chain="regtest", update_every=3, family="runes"),
            dict(n=30, blocks=40, flags="runes", chain="regtest", update_every=3, family="runes"),
            dict(n=60, blocks=40, flags="sats,runes,addresses", chain="regtest", update_every=4, family="provenance"),
            dict(n=20, blocks=40, flags="runes", chain="regtest", update_every=4, family="provenance"),
            dict(n=40, blocks=30, flags="sats,addresses", chain="regtest", update_every=2, family="dup"),
            dict(n=10, blocks=30, flags="sats,runes,addresses,transactions", chain="regtest", update_every=3, family="dup")]


def make_trace(seed, tier, events=True, plan_override=None, name="ledger"):
    """Generate scenarios and run them on the real index; returns (trace path, scenario path)."""
    parts = plan_override or plan(tier)
    scen_path = os.path.join(WORK, "scen-%s-%s-%d.ndjson" % (name, tier, seed))
    with open(scen_path, "w") as out:
        for i, p in enumerate(parts):
            tmp = scen_path + ".part"
            ordv(["gen", "--family", p.get("family", "ledger"), "--seed", str(seed * 31 + p.get("seed_offset", i)), "--n", str(p["n"]),
                  "--blocks", str(p["blocks"]), "--flags", p["flags"], "--chain", p["chain"],
                  "--update-every", str(p["update_every"]), "--tag", p.get("tag", "p%d" % i), "--out", tmp])
            with open(tmp) as f:
                out.write(f.read())
            os.remove(tmp)
        if name == "ledger":
            # committed regression scenarios (one per recorded finding, and any added later)
            regdir = os.path.join(os.path.dirname(WORK), "scenarios")
            for fn in sorted(os.listdir(regdir)) if os.path.isdir(regdir) else []:
                if fn.endswith(".ndjson"):
                    with open(os.path.join(regdir, fn)) as f:
                        out.write(f.read())

    def produce(path):
        args = ["run", "--scenarios", scen_path, "--trace", path, "--update-timeout", "1200"]
        if events:
            args.append("--events")
        ordv(args, timeout=7200)

    with open(scen_path) as f:
        content = f.read()
    trace = cached_trace(["ledger", content, events], produce)
    return trace, scen_path


def scenario_of_line(trace_lines, scen_path, line_no):
    """The scenario (json) whose events contain 1-based trace line `line_no`."""
    i = min(line_no, len(trace_lines)) - 1
    while i > 0 and trace_lines[i]["e"] != "Reset":
        i -= 1
    name = trace_lines[i].get("name")
    j = i + 1
    while j < len(trace_lines) and trace_lines[j]["e"] != "Reset":
        j += 1
    with open(scen_path) as f:
        for row in f:
            if row.strip() and json.loads(row)["name"] == name:
                return json.loads(row), trace_lines[i:j], i
    return None, trace_lines[i:j], i


def validate(prop, trace, scen_path, outcome, spec="LedgerTrace", timeout=3000):
    """Run TLC trace validation for `prop`; records violations / known findings in outcome.
    Returns (matched, total, tlc result)."""
    res = run_tlc(spec + ".tla", spec + ".cfg", env={"TRACE": trace, "PROP": prop}, timeout=timeout)
    if res["timeout"]:
        raise ToolError("TLC timed out validating %s" % trace)
    matched, total, fails, known = parse_trace_result(res["out"])
    if matched is None:
        log(res["out"][-3000:])
        raise ToolError("TLC produced no verdict for %s" % trace)
    listed = known_keys(prop)
    if prop == "C15":
        # C15 evaluates the clauses of C03-C11 on every flag set: their recorded findings apply to it as well
        for q in ("C03", "C04", "C05", "C06", "C07", "C08", "C09", "C10", "C11"):
            listed.update(known_keys(q))
    for k in sorted(set(known)):
        if k in listed:
            outcome.known.append("%s: %s" % (k, listed[k]["title"]))
        else:
            # a tolerated class that the committed findings file does not list is a violation
            lines = read_ndjson(trace)
            sc, ev, _ = scenario_of_line(lines, scen_path, matched or 1)
            outcome.violation("unlisted finding class %s" % k,
                              {"property": prop, "kind": "ledger", "scenario": sc, "reason": k})
    if matched != total:
        lines = read_ndjson(trace)
        sc, ev, start = scenario_of_line(lines, scen_path, matched + 1)
        detail = [x for x in res["out"].splitlines() if "FAIL" in x][:3]
        outcome.violation("trace rejected at line %d (%s): %s" % (matched + 1, ",".join(fails[:3]), " ".join(detail)[:600]),
                          {"property": prop, "kind": "ledger", "scenario": sc, "spec": spec,
                           "first_unmatched_event": lines[matched] if matched < len(lines) else None,
                           "fails": fails, "tlc_tail": res["out"][-2500:]})
    return matched, total, res


def known_duplicate_resurrection(outcome):
    """Recorded finding C01-duplicate-output-resurrected: the committed scenario is run on the real index and judged by
    TLC like any other; the only tolerated rejection is C01.domain with exactly the resurrected output as the extra one."""
    scen = os.path.join(os.path.dirname(WORK), "scenarios-known", "c01-duplicate-spent-in-batch.ndjson")
    if not os.path.exists(scen):
        return
    trace = os.path.join(WORK, "known-c01-dup-%d.ndjson" % os.getpid())
    ordv(["run", "--scenarios", scen, "--trace", trace, "--events"], timeout=1800)
    res = run_tlc("LedgerTrace.tla", "LedgerTrace.cfg", env={"TRACE": trace, "PROP": "C01"}, timeout=1800)
    matched, total, fails, _ = parse_trace_result(res["out"])
    if matched is None:
        raise ToolError("TLC produced no verdict for the known-finding scenario")
    if matched == total:
        return  # the defect is gone
    listed = known_keys("C01")
    text = res["out"].replace("\n", " ")
    if fails[:1] == ["C01.domain"] and '"missing", {}, "extra", {"cp9x0b12:0"}' in text and "C01-duplicate-output-resurrected" in listed:
        outcome.known.append("C01-duplicate-output-resurrected: %s" % listed["C01-duplicate-output-resurrected"]["title"])
    else:
        with open(scen) as f:
            sc = json.loads(f.readline())
        outcome.violation("known-finding scenario rejected differently: %s" % text[text.find('"FAIL"'):][:400],
                          {"property": "C01", "kind": "ledger", "scenario": sc, "fails": fails})


def coverage_of(prop, trace):
    lines = read_ndjson(trace)
    blocks = [x for x in lines if x["e"] == "Block"]
    states = [x for x in lines if x["e"] == "State"]
    distinct = set()
    for b in blocks:
        if _nontrivial(prop, b):
            distinct.add(json.dumps(b.get("txs"), sort_keys=True))
    n_tx = sum(len(b.get("txs", [])) for b in blocks)
    n_env = sum(len(t.get("envs", [])) for b in blocks for t in b.get("txs", []))
    n_stone = sum(1 for b in blocks for t in b.get("txs", []) if "stone" in t)
    sample = None
    for b in blocks:
        if _nontrivial(prop, b):
            sample = {"block": {k: b[k] for k in ("id", "h", "txs", "cb")}}
            break
    return {
        "evaluations": len(states),
        "distinct_nontrivial": len(distinct),
        "rule": "seeded random valid chains built as real bitcoin blocks on the mock node and indexed by the real "
                "ord::Index; one evaluation = every predicate of the property evaluated by TLC on the full projected "
                "index state after an update; distinct_nontrivial = distinct block contents (transaction lists) that "
                "exercise the property (%s)" % prop,
        "samples": [sample] if sample else [{"note": "no non-trivial block"}],
        "scenarios": sum(1 for x in lines if x["e"] == "Reset"),
        "blocks": len(blocks), "transactions": n_tx, "envelopes": n_env, "runestones": n_stone,
        "trace_events": len(lines),
    }


def plan_c15(tier):
    parts = []
    sets = C15_FLAGSETS if tier == "thorough" else C15_FLAGSETS[:5]
    for fl in sets:
        # same seed and tag for every flag set => same scenario names => projections are compared
        parts.append(dict(n=4 if tier == "quick" else 30, blocks=20 if tier == "quick" else 30, flags=fl, chain="regtest",
                          update_every=3, tag="f", seed_offset=0))
        parts.append(dict(n=3 if tier == "quick" else 20, blocks=28, flags=fl, chain="regtest", update_every=4,
                          tag="g", seed_offset=1, family="runes"))
    # signet from genesis: runes are active from height 0, inscriptions from 112,402 -- rune results must not depend on
    # whether the sat index forces full blocks (this found C15-signet-runes-below-first-inscription-height)
    for fl in ["runes", "sats,runes"] + (["runes,addresses", "runes,transactions"] if tier == "thorough" else []):
        parts.append(dict(n=1 if tier == "quick" else 6, blocks=20, flags=fl, chain="signet", update_every=4, tag="sg", seed_offset=3, family="runes"))
    # ... and envelopes below the first inscription height are not inscriptions, whatever the flags
    for fl in ["runes", "sats,runes"] + (["addresses", ""] if tier == "thorough" else []):
        parts.append(dict(n=1 if tier == "quick" else 6, blocks=16, flags=fl, chain="signet", update_every=4, tag="si", seed_offset=4))
    if tier == "thorough":
        # signet: blocks below the first inscription height (112,402) are header-only unless runes are indexed, so the
        # values of the outputs spent afterwards are fetched from the node (the path without a full UTXO index)
        for fl in ["", "transactions", "runes"]:
            parts.append(dict(n=2, blocks=18, flags=fl, chain="signet", update_every=3, tag="h", seed_offset=2, family="signet"))
    return parts


def run(prop, tier, seed):
    t0 = time.time()
    outcome = Outcome(prop)
    if prop == "C15":
        trace, scen = make_trace(seed, tier, plan_override=plan_c15(tier), name="c15")
    else:
        trace, scen = make_trace(seed, tier)
    matched, total, res = validate(prop, trace, scen, outcome)
    if prop == "C01":
        known_duplicate_resurrection(outcome)
    cov = coverage_of(prop, trace)
    cov["traces_validated_against_impl"] = cov["scenarios"]
    cov["events_matched"] = matched
    cov["events_total"] = total
    return outcome, cov, time.time() - t0
