#!/usr/bin/env python3
"""mkprompt.py <property id> <worktree>  -- writes /verif/work/prompt_<id>_<wt>.txt: the seeding task for a
sub-agent (only the property text and the worktree are given; nothing about the verification machinery)."""
import json, os, sys
pid, wt = sys.argv[1], sys.argv[2]
props = {json.loads(l)['id']: json.loads(l) for l in open('/verif/properties.jsonl')}
p = props[pid]
text = f"""You are helping test a verification effort for the open-source project ordinals/ord (Bitcoin ordinals indexer, explorer and wallet, written in Rust). Your job: produce ONE realistic, subtle code change (a seeded bug) to ord that BREAKS the semantic property below while the crate still COMPILES and the EXISTING TEST SUITE STILL PASSES, plus a demonstration that fails with your change and passes without it.

Work ONLY inside your own scratch git worktree of the repository: {wt}  (it is a detached-HEAD worktree; never touch /repo itself, never commit, never read or write anything under /verif). The sandbox has no network; build with `--offline`. Use your own build directory: export CARGO_TARGET_DIR={wt}/target for every cargo command. Other builds may be running on this machine; be patient with slow builds.

PROPERTY {pid}: {p['title']}
Statement: {p['statement']}
Quantified over: {p['quantifier']['text']}
Relevant files: {', '.join(p['anchors']['files'])}

Requirements for the change:
1. It must be the kind of mistake a developer could plausibly make (off-by-one, wrong comparison, reordered statements, stale variable, missing update of a table, wrong branch condition, two sites that each look fine alone, etc.), a few lines at most, in the non-test source code of ord (src/ or crates/ordinals/src/). Do not touch tests, Cargo files, or anything behind `#[cfg(feature = "verif")]` / src/verif.rs / src/index/verif.rs.
2. It must need something SPECIFIC to manifest: a particular multi-step history, an unusual but valid input, a particular interleaving/crash point, a boundary value, or a combination of features -- NOT something ordinary use or any existing test exposes at once.
3. With the change applied, `cargo test --workspace --no-fail-fast --offline` must give the same results as without it for every test listed under "stable_pass" in /root/.vp/BASELINE.json (1179 tests; the 99 tests under "always_fail" there fail in this sandbox regardless and are to be ignored; `integration::wallet::resume::resume_suspended` is timing-sensitive under load: if it is the only deviation, rerun it alone). You MUST actually run the suite with your change and check this (a full run takes ~7 minutes after the first build; the first build takes several minutes). To compare: parse lines `test <name> ... ok|FAILED` (also `test <name> - should panic ... ok`) from the output; stable names are `<crate>::<path>` where cargo prints `<path>` (crate `ord` unit tests, and `ord::integration::...` for tests/lib.rs).
4. Write a demonstration: a new Rust test (unit test inside the crate using the existing test helpers, e.g. `Context::builder()` in src/index.rs tests / src/index/testing.rs, or an integration-style test) or a small program, that FAILS with your change and PASSES on the unmodified code. Actually run it both ways and report the outputs.

Deliverables -- write these files into {wt}/DELIVER/ :
- patch.diff : `git diff` of ONLY the seeded bug (not the demonstration test).
- demo.diff (or demo files) : the demonstration, as a diff that adds the test, plus demo_command.txt with the exact command to run it (a `cargo test` filter).
- meta.json : {{"property": "{pid}", "summary": "...what the change does...", "needs": "...what specific input/history/schedule is needed for it to manifest...", "demo_filter": "<the cargo test name filter of the demo>", "ran": ["commands you ran and their outcome, incl. the test-suite comparison and the demo both ways"]}}

When done, leave the worktree with the seeded bug AND the demonstration applied (uncommitted) and reply with a short summary: the idea of the bug, what is needed to trigger it, and confirmation that (a) the suite comparison was clean and (b) the demo fails with / passes without the change. If you cannot find a change that satisfies all constraints after a serious attempt, say so honestly and describe the best candidate and which constraint it fails."""
out = f"/verif/work/prompt_{pid}_{os.path.basename(wt)}.txt"
open(out, "w").write(text)
print(out)
