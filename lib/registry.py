"""Property registry: which family decides which property, level-A models, evidence."""
import json
import os
import time

import common
import ledger
import proto
import send
import fn
import simple
import walletfam
from common import Outcome, log, run_tlc, write_evidence

# property -> list of (module, cfg, workers, timeout_quick, timeout_thorough) exhaustive design-level models
_IX = [("Indexer.tla", "Indexer_a.cfg", 8, 600, 600), ("Indexer.tla", "Indexer_b.cfg", 8, 900, 900)]
_IX_T = _IX + [("Indexer.tla", "Indexer_c.cfg", 8, 1800, 1800), ("Indexer.tla", "Indexer_d.cfg", 8, 1800, 1800)]
_SL = [("SatLedger.tla", "SatLedger.cfg", 8, 900, 900)]
_SL_T = _SL + [("SatLedger.tla", "SatLedger_c.cfg", 8, 5400, 5400)]
_IF = [("InscrFlotsam.tla", "InscrFlotsam.cfg", 8, 1200, 1200)]
_IF_T = _IF + [("InscrFlotsam.tla", "InscrFlotsam_big.cfg", 8, 3600, 3600)]
_RM = [("RuneModel.tla", "RuneModel.cfg", 8, 1200, 1200)]
_RM_T = _RM + [("RuneModel.tla", "RuneModel_big.cfg", 8, 7200, 7200)]
LEVEL_A = {"C08": _RM, "C12": _IX, "C13": _IX, "C14": _IX, "C01": _SL, "C02": _SL, "C06": _IF}
LEVEL_A_THOROUGH = {"C08": _RM_T, "C12": _IX_T, "C13": _IX_T, "C14": _IX_T, "C01": _SL_T, "C02": _SL_T, "C06": _IF_T}

LEVELS = {"C01": "model_checking", "C02": "model_checking", "C06": "model_checking", "C08": "model_checking", "C21": "model_checking", "C22": "model_checking", "C23": "model_checking", "C24": "model_checking", "C27": "model_checking", "C36": "model_checking", "C26": "model_checking", "C29": "model_checking", "C20": "model_checking", "C12": "model_checking", "C13": "fault_enumeration", "C14": "model_checking"}

ASSUME_PROTO = [
    "content equality is judged on a digest of every table row except WRITE_TRANSACTION_STARTING_BLOCK_COUNT_TO_TIMESTAMP "
    "and the statistics Commits, InitialSyncTime, LastSavepointHeight (timing and commit bookkeeping)",
    "the node's best chain changes only between update calls; a new best chain is strictly longer than the indexed tip",
    "mockcore reports getblockchaininfo.headers = 0 (savepoints are always considered near the tip)",
    "crashes are injected at the guarded crash points (between redb transactions and between blocks), by abort()",
]

ASSUME_LEDGER = [
    "values are multiples of K=10^6 sats (a non-multiple in the observed state is itself reported)",
    "chains are consensus-plausible (inputs exist and are unspent, outputs <= inputs, coinbase <= subsidy+fees); "
    "coinbase maturity is not enforced (as in ord's own tests)",
    "heights stay below the first halving (subsidy 5000 units)",
    "the harness projection (labels for txids, units for sats) is trusted; it contains no oracle logic",
    "TLC evaluates the predicates; mockcore serves the blocks",
]


def level_a(prop, tier):
    """Run the exhaustive design-level models registered for the property."""
    total_states = 0
    total_distinct = 0
    runs = []
    table = LEVEL_A_THOROUGH if tier == "thorough" and prop in LEVEL_A_THOROUGH else LEVEL_A
    for (module, cfg, workers, tq, tt) in table.get(prop, []):
        timeout = tq if tier == "quick" else tt
        res = run_tlc(module, cfg, workers=workers, timeout=timeout, deque=False)
        if res.get("timeout"):
            raise common.ToolError("level-A model %s/%s timed out" % (module, cfg))
        if not res["completed"]:
            log(res["out"][-3000:])
            raise common.ToolError("level-A model %s/%s did not complete cleanly" % (module, cfg))
        total_states += res.get("states", 0)
        total_distinct += res.get("distinct", 0)
        runs.append({"module": module, "cfg": cfg, "states": res.get("states"), "distinct": res.get("distinct"),
                     "wall_s": round(res["wall"], 1)})
    return total_states, total_distinct, runs


def run(prop, tier, seed, t0):
    if prop in ledger.LEDGER_PROPS:
        outcome, cov, wall = ledger.run(prop, tier, seed)
        assumptions = ASSUME_LEDGER
    elif prop in ("C12", "C13", "C14"):
        outcome, cov, wall = proto.run(prop, tier, seed)
        assumptions = ASSUME_PROTO
    elif prop in fn.FAMILY:
        outcome, cov, wall = fn.run(prop, tier, seed)
        assumptions = ["the harness encodes big numbers as base-10^4 limbs and strings as code arrays (projection only)",
                       "TLC evaluates spec/OrdNumbers.tla with exact arithmetic (spec/BigNat.tla)"]
    elif prop in simple.TABLE:
        outcome, cov, wall = simple.run(prop, tier, seed)
        assumptions = ["the harness builds the inputs and projects the outputs; TLC judges"]
    elif prop in walletfam.FAMILY:
        outcome, cov, wall = walletfam.run(prop, tier, seed)
        assumptions = ["the mock node (mockcore) stands in for bitcoind: its wallet owns the addresses it handed out, funds largest-first from unlocked outputs, and does not verify signatures",
                       "rune amounts stay below 2^31 (TLC integers); rune ids are abstracted to their rank",
                       "the driver reads balances, inscriptions and burned totals through the index's public query functions"]
    elif prop == "C20":
        outcome, cov, wall = send.run(prop, tier, seed)
        assumptions = ["all wallet scripts are taproot (the wallet only creates taproot descriptors); recipient is a taproot address",
                       "fee rates are half-integers up to 1000 sat/vB (TLC integers are 32-bit)",
                       "signed size is recomputed by the harness from the returned transaction with 64-byte dummy witnesses (bitcoin crate vsize)"]
    else:
        raise common.ToolError("no check registered for %s" % prop)
    states, distinct, runs = level_a(prop, tier)
    level = LEVELS.get(prop, "exploration")
    if prop == "C20" or prop in fn.FAMILY or prop in simple.TABLE or prop in walletfam.FAMILY:
        pass
    elif runs:
        cov["states"] = distinct
        cov["transitions"] = states
        cov["level_a_models"] = runs
    elif level == "model_checking" and prop != "C20" and "states" not in cov:
        level = "exploration"
    rc = outcome.finish()
    write_evidence(prop, tier, seed, level, cov, assumptions, time.time() - t0, len(outcome.violations))
    return rc


def replay(prop, path):
    with open(path) as f:
        payload = json.load(f)
    if payload.get("kind") == "ledger":
        scen = os.path.join(common.WORK, "replay-scen-%d.ndjson" % os.getpid())
        with open(scen, "w") as f:
            f.write(json.dumps(payload["scenario"]) + "\n")
        trace = os.path.join(common.WORK, "replay-trace-%d.ndjson" % os.getpid())
        common.ordv(["run", "--scenarios", scen, "--trace", trace, "--events"])
        outcome = Outcome(prop)
        ledger.validate(prop, trace, scen, outcome, spec=payload.get("spec", "LedgerTrace"))
        return outcome.finish()
    kind = payload.get("kind")
    if kind == "send" and "config" in payload:
        # re-execute the recorded wallet configuration on the real builder
        import send as send_mod
        cfgs = os.path.join(common.WORK, "replay-send-%d.ndjson" % os.getpid())
        with open(cfgs, "w") as f:
            f.write(json.dumps(payload["config"]) + "\n")
        trace = os.path.join(common.WORK, "replay-send-trace-%d.ndjson" % os.getpid())
        common.ordv(["send", "--configs", cfgs, "--out", trace])
        outcome = Outcome(prop)
        send_mod.validate("C20", trace, outcome)
        return outcome.finish()
    if kind == "proto" and isinstance(payload.get("scenario"), dict) and "steps" in payload["scenario"]:
        # re-execute the recorded scenario on the real index
        sc = payload["scenario"]
        key = (sc.get("commit_interval") or 5000, sc.get("savepoint_interval") or 10, sc.get("max_savepoints") or 2)
        outcome = Outcome(prop)
        proto.run_groups(prop, {key: json.dumps(sc) + "\n"}, outcome, [prop], strict=(prop == "C13"))
        return outcome.finish()
    if kind in ("fn", "simple", "wallet") and "case" in payload:
        # the recorded observation is re-validated against the current specification (the code is not re-run:
        # rerun ./check <ID> with the same VERIF_SEED for that)
        spec = {"fn": "FnTrace", "simple": simple.TABLE.get(prop, {}).get("spec"),
                "wallet": {"C21": "BatchTrace", "C22": "WalletTrace", "C23": "WalletTrace", "C24": "OfferTrace"}.get(prop)}[kind]
        if not spec:
            raise common.ToolError("no trace specification registered for %s" % prop)
        trace = os.path.join(common.WORK, "replay-case-%d.ndjson" % os.getpid())
        with open(trace, "w") as f:
            for row in payload.get("context", []):
                f.write(json.dumps(row) + "\n")
            f.write(json.dumps(payload["case"]) + "\n")
        res = run_tlc(spec + ".tla", spec + ".cfg", env={"TRACE": trace, "PROP": prop}, timeout=1800)
        matched, total, fails, known = common.parse_trace_result(res["out"])
        if matched is None:
            log(res["out"][-2000:])
            raise common.ToolError("%s gave no verdict" % spec)
        outcome = Outcome(prop)
        if matched != total:
            detail = res["out"][res["out"].find('"FAIL"'):][:600].replace("\n", " ")
            outcome.violation("recorded observation rejected (%s): %s" % (",".join(fails[:2]), detail), payload)
        return outcome.finish()
    raise common.ToolError("replay kind %r carries no re-runnable input; rerun ./check %s with the same VERIF_SEED" % (kind, prop))
