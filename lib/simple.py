"""Families with one harness command, one trace spec and an optional exhaustive model."""
import json
import os
import time

from common import WORK, Outcome, ToolError, known_keys, log, ordv, parse_trace_result, read_ndjson, run_tlc

# prop -> dict(cmd(seed, tier, out) -> argv, spec, model=(module, cfg), rule, distinct(record) -> key)
TABLE = {}


def register(prop, **kw):
    TABLE[prop] = kw


def run(prop, tier, seed):
    t0 = time.time()
    e = TABLE[prop]
    outcome = Outcome(prop)
    out = os.path.join(WORK, "simple-%s-%s-%d.ndjson" % (prop, tier, seed))
    ordv(e["cmd"](seed, tier, out), timeout=7200)
    res = run_tlc(e["spec"] + ".tla", e["spec"] + ".cfg", env={"TRACE": out, "PROP": prop}, timeout=7200)
    if res["timeout"]:
        raise ToolError("%s timed out" % e["spec"])
    matched, total, fails, known = parse_trace_result(res["out"])
    if matched is None:
        log(res["out"][-2500:])
        raise ToolError("%s gave no verdict" % e["spec"])
    lines = read_ndjson(out)
    listed = known_keys(prop)
    for k in sorted(set(known)):
        if k in listed:
            outcome.known.append("%s: %s" % (k, listed[k]["title"]))
        else:
            outcome.violation("finding class %s is not a recorded known finding" % k, {"property": prop, "kind": "simple", "class": k})
    if matched != total:
        detail = res["out"][res["out"].find('"FAIL"'):][:700].replace("\n", " ")
        outcome.violation("rejected at line %d (%s): %s" % (matched + 1, ",".join(fails[:2]), detail),
                          {"property": prop, "kind": "simple", "case": lines[matched], "fails": fails})
    keyf = e.get("distinct", lambda r: json.dumps(r, sort_keys=True))
    cov = {"evaluations": len(lines), "distinct_nontrivial": len({keyf(r) for r in lines}), "rule": e["rule"],
           "samples": [lines[0], lines[len(lines) // 2], lines[-1]], "traces_validated_against_impl": 1}
    if e.get("model"):
        m, c = e["model"]
        mres = run_tlc(m, c, workers=e.get("workers", 4), timeout=e.get("model_timeout", 1800), deque=False)
        if mres["timeout"] or not mres["completed"]:
            log(mres["out"][-2500:])
            raise ToolError("level-A model %s failed" % m)
        cov["states"] = mres.get("distinct", 0)
        cov["transitions"] = mres.get("states", 0)
    return outcome, cov, time.time() - t0


register("C36",
         cmd=lambda seed, tier, out: ["settings", "--out", out],
         spec="SettingsTrace", model=("SettingsModel.tla", "SettingsModel.cfg"),
         rule="every settings key (18 option-valued incl. username/password pairs, 6 switches, the hidden list) x every subset of "
              "{flag, ORD_ variable, ord.yaml} that the key supports x two value rotations, through the real Options::try_parse_from + "
              "Settings::merge; TLC compares the resulting value with Merge(kind, flag, env, file, default); the space is finite and "
              "fully enumerated",
         distinct=lambda r: json.dumps([r["key"], r["flag"], r["env"], r["file"]]))

register("C25",
         cmd=lambda seed, tier, out: ["runestone", "--seed", str(seed), "--n", "400" if tier == "quick" else "6000", "--out", out]
         + (["--exhaustive"] if tier == "thorough" else []),
         spec="RunestoneTrace",
         rule="integer sequences: every single (tag, value) pair and (thorough: every; quick: a 3% sample of) pairs of pairs over 19 tags "
              "(all known tags, unknown even/odd, a tag beyond u64) x 19 values (0..4, 7, 38/39, char-range limits, spacer limit, u32/u64 "
              "limits, bit 127, u128::MAX), structured random messages (flags, fields, truncated fields, bodies with delta-encoded edicts "
              "and trailing integers), script-level classes (no OP_RETURN/OP_13, non-push opcode, invalid push, bad varint, first of two "
              "candidate outputs), random payload bytes, and random well-formed runestones enciphered and deciphered; TLC requires the "
              "observed artifact to equal Decipher(ints, outputs) of spec/Runestone.tla exactly",
         distinct=lambda r: json.dumps([r.get("f"), r.get("ints"), r.get("nOut"), r.get("script"), r.get("stone")]))

register("C27",
         cmd=lambda seed, tier, out: ["envelope", "--seed", str(seed), "--n", "400" if tier == "quick" else "5000",
                                      "--max-len", "5" if tier == "quick" else "6", "--out", out],
         spec="EnvelopeTrace", model=("EnvelopeModel.tla", "EnvelopeModel.cfg"), workers=8,
         rule="every token string up to length 5 (thorough: 6) over {empty push, OP_IF, OP_ENDIF, push 'ord', data push, push-number "
              "opcode, other opcode} plus longer random strings, written as a real tapscript witness and parsed by the real "
              "RawEnvelope::from_transaction; inscriptions with every field present/absent and value lengths from {1, 2, 519, 520, 521, "
              "1040, 1041, 1600} built by ord's own reveal-script builder (1-3 per script) and parsed back; pointer/delegate/parent compact "
              "encodings at byte-length boundaries through Inscription::new; random witness bytes",
         distinct=lambda r: json.dumps([r.get("f"), r.get("toks"), r.get("built"), r.get("value"), r.get("index")]))

register("C19",
         cmd=lambda seed, tier, out: ["http-content", "--out", out],
         spec="ContentTrace",
         rule="one real inscription per class (content type valid/invalid/absent, text, html; encoding none/br/other/invalid; no body; "
              "delegate to a plain, hidden, missing, brotli-encoded or itself delegating inscription, with and without an own body; hidden by "
              "config; a reinscription on an inscribed sat) mined on a mock chain and served by the real explorer in-process; every content "
              "route (/content, /r/undelegated-content, /preview, /r/sat/<n>/at/<i>/content with i >= 0 and i = -1), a JSON route, the home "
              "page, a 404 and a 400, x four Accept-Encoding values x {csp origin or not} x {decompress or not}; TLC evaluates the decision "
              "table of spec/ContentTrace.tla on every response",
         distinct=lambda r: json.dumps([r["route"], r["label"], r["accepts"], r["cfg"]]))

register("C18",
         cmd=lambda seed, tier, out: ["http-json", "--seed", str(seed), "--n", "3" if tier == "quick" else "24",
                                      "--blocks", "14" if tier == "quick" else "24", "--out", out],
         spec="ExplorerTrace",
         rule="a fixed chain with a parent of 205 children that all sit on one sat and fill blocks with 101/100/4 inscriptions "
              "(pagination at 100 and 200, negative indices), plus seeded random ledger and rune-dense chains; after indexing, the real "
              "explorer serves the index in-process and every object is requested on /output, /r/utxo, /inscription (by id and by number), "
              "/r/inscription, /r/children (+pages, +/inscriptions), /r/parents (+pages), /r/sat (+pages), /r/sat/<n>/at/<i> for i in "
              "{0,1,99,100,204,-1,-2,-100,-101,-205,-206,5000}, /sat, /inscriptions/block (+pages), /rune, /runes, /address; TLC compares "
              "every row with the State projected from the index tables",
         distinct=lambda r: json.dumps([r.get("route"), r.get("out"), r.get("l"), r.get("sat"), r.get("at"), r.get("page"), r.get("h"), r.get("name"), r.get("script"), r.get("e"), r.get("n")]))

_STORE_RULE = ("packed sat ranges at the boundaries of the 51-bit base / 33-bit length layout (supply limits, subsidy-long ranges, random), "
               "UTXO entries with every combination of sat ranges / value, script lengths 0..300 and inscription lists under 8 index-flag "
               "subsets (a real index per subset), merges of pseudo-output entries, outpoints, satpoints, rune ids, inscription ids and rune "
               "entries with u128 boundary values; properties with 0..40 gallery items (shared and distinct txids, index 0 / non-zero / u32::MAX), "
               "traits of every kind, in inline, packed and through Inscription::new with and without compression; brotli inputs with "
               "expansion ratios 10..40 around the 30:1 limit and sizes around 4,000,000; random bytes")
register("C35", cmd=lambda seed, tier, out: ["storage", "--seed", str(seed), "--n", "200" if tier == "quick" else "3000", "--out", out],
         spec="StoreTrace", rule=_STORE_RULE,
         distinct=lambda r: json.dumps(r, sort_keys=True) if r["f"] in ("satrange", "utxo", "merge", "points", "ids", "entry") else "x")
register("C28", cmd=lambda seed, tier, out: ["storage", "--seed", str(seed), "--n", "200" if tier == "quick" else "3000", "--out", out],
         spec="StoreTrace", rule=_STORE_RULE,
         distinct=lambda r: json.dumps(r, sort_keys=True) if r["f"] in ("props", "bomb") else "x")
