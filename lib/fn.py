"""Pure-function families judged by spec/FnTrace.tla: C26, C29, C30, C31, C32, C33, C34."""
import json
import os
import time

from common import WORK, Outcome, ToolError, known_keys, log, ordv, parse_trace_result, read_ndjson, run_tlc

FAMILY = {"C26": "varint", "C29": "sat", "C30": "sat", "C31": "parsers", "C32": "rune", "C33": "unlock", "C34": "decimal"}
N_QUICK = {"C26": 1500, "C29": 400, "C30": 1200, "C31": 700, "C32": 2500, "C33": 400, "C34": 500}
N_THOROUGH = {"C26": 40000, "C29": 30000, "C30": 30000, "C31": 12000, "C32": 60000, "C33": 3000, "C34": 8000}
LEVEL_A = {"C26": ("VarintModel.tla", "VarintModel.cfg"), "C29": ("SatModel.tla", "SatModel.cfg"),
           "C30": ("SatModel.tla", "SatModel.cfg")}


def input_key(r):
    for k in ("bytes", "s", "h", "text", "n", "amount"):
        if k in r:
            return json.dumps([r.get("f"), r.get("g"), r.get("net"), r.get("div"), r[k]])
    return json.dumps(r, sort_keys=True)


def run(prop, tier, seed):
    t0 = time.time()
    outcome = Outcome(prop)
    fam = FAMILY[prop]
    n = (N_QUICK if tier == "quick" else N_THOROUGH)[prop]
    traces = []
    base = os.path.join(WORK, "fn-%s-%s-%d" % (prop, tier, seed))
    args = ["sample", "--family", fam, "--seed", str(seed), "--n", str(n), "--out", base + ".ndjson"]
    if prop == "C33" and tier == "thorough":
        args.append("--full")
    ordv(args, timeout=7200)
    traces.append(base + ".ndjson")
    if prop in ("C29", "C30") and tier == "thorough":
        # exhaustive windows of consecutive heights around every halving and at both ends
        k = 0
        for e in list(range(0, 34)):
            lo = max(0, e * 210000 - 400)
            p = base + "-w%d.ndjson" % k
            ordv(["sample", "--family", "sat", "--seed", str(seed + k), "--n", "0", "--heights", "%d..%d" % (lo, lo + 800), "--out", p], timeout=7200)
            traces.append(p)
            k += 1
    total_lines = 0
    distinct = set()
    samples = []
    for tr in traces:
        res = run_tlc("FnTrace.tla", "FnTrace.cfg", env={"TRACE": tr, "PROP": prop}, timeout=7200)
        if res["timeout"]:
            raise ToolError("FnTrace timed out")
        matched, total, fails, known = parse_trace_result(res["out"])
        if matched is None:
            log(res["out"][-2500:])
            raise ToolError("FnTrace gave no verdict")
        lines = read_ndjson(tr)
        total_lines += len(lines)
        for r in lines:
            distinct.add(input_key(r))
        if not samples:
            samples = [lines[0], lines[len(lines) // 2], lines[-1]]
        if matched != total:
            detail = res["out"][res["out"].find('"FAIL"'):][:700].replace("\n", " ")
            outcome.violation("rejected at line %d (%s): %s" % (matched + 1, ",".join(fails[:2]), detail),
                              {"property": prop, "kind": "fn", "family": fam, "case": lines[matched], "fails": fails})
    cov = {"evaluations": total_lines, "distinct_nontrivial": len(distinct),
           "rule": "boundary values (powers of 2/10/26/128, halving and difficulty boundaries, range limits, the 18/19/20-byte varint "
                   "boundary, grammar component magnitude classes) plus seeded random inputs evaluated on the real function; TLC checks "
                   "every (input, output) pair against the exact-arithmetic definition (spec/OrdNumbers.tla); distinct_nontrivial = distinct inputs",
           "samples": samples, "traces_validated_against_impl": len(traces)}
    if prop in LEVEL_A and os.path.exists(os.path.join("/verif/spec", LEVEL_A[prop][0])):
        m, c = LEVEL_A[prop]
        res = run_tlc(m, c, workers=4, timeout=1200, deque=False)
        if res["timeout"] or not res["completed"]:
            log(res["out"][-2500:])
            raise ToolError("level-A model %s failed" % m)
        cov["states"] = res.get("distinct", 0)
        cov["transitions"] = res.get("states", 0)
    return outcome, cov, time.time() - t0


def replay(prop, payload):
    case = payload["case"]
    fam = payload["family"]
    # re-evaluate the same input on the current code: regenerate the family with the recorded seed is not
    # possible for a single case, so the recorded input is re-run through `ordv sample-one`
    raise ToolError("replay of pure-function cases: rerun ./check %s (deterministic for a given VERIF_SEED)" % prop)
