#!/bin/bash
# usage: confirm_mutant.sh <worktree> <seeded dir> <demo test filter> [cargo test target args, default "-p ord --lib"]
# confirms: demo fails with the change, the stable baseline passes with it, demo passes without it
WT=$1; SD=$2; FILTER=$3; TARGET=${4:-"-p ord --lib"}
export CARGO_TARGET_DIR=$WT/target
cd $WT
{
echo "== worktree state"; git status --short | head
echo "== demo WITH change (expect failure)"
cargo test --offline $TARGET "$FILTER" 2>&1 | grep -E "^test |^test result" | head -8
echo "== full suite WITH change"
# resume_suspended can hang forever on a loaded machine: it is run on its own, under a timeout
timeout 7200 cargo test --workspace --no-fail-fast --offline -- --skip resume_suspended > $WT/suite_confirm.log 2>&1
timeout 600 cargo test --offline -p ord --test integration resume_suspended >> $WT/suite_confirm.log 2>&1
python3 - "$WT/suite_confirm.log" "$FILTER" <<'PY'
import json,re,sys
out=open(sys.argv[1]).read(); flt=sys.argv[2]
b=json.load(open('/root/.vp/BASELINE.json')); sp=set(b['stable_pass'])
res={}
for line in out.splitlines():
    m=re.match(r'test (\S+)(?: - should panic)? \.\.\. (ok|FAILED|ignored)',line)
    if m: res.setdefault(m.group(1),m.group(2))
def status(n):
    parts=n.split('::')
    for k in range(1,3):
        s='::'.join(parts[k:])
        if s in res: return res[s]
bad=[n for n in sorted(sp) if status(n)!='ok']
print("stable_pass",len(sp),"not ok",len(bad),bad[:5])
PY
echo "== demo WITHOUT change (expect pass)"
git apply -R $SD/patch.diff && cargo test --offline $TARGET "$FILTER" 2>&1 | grep -E "^test |^test result" | head -8
git apply $SD/patch.diff
} > $SD/confirm.log 2>&1
echo finished $SD
