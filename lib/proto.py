"""Indexing-protocol family: C12 (schedule independence), C13 (crash consistency), C14 (reorgs)."""
import json
import os
import time

import common
from common import (WORK, Outcome, ToolError, cached_trace, known_keys, log, ordv, parse_trace_result,
                    read_ndjson, run_tlc)

CRASH_POINTS = ["mid_block", "post_block", "pre_commit_main", "post_commit_main", "post_commit_empty",
                "pre_savepoint_delete_commit", "post_savepoint_delete_commit",
                "pre_savepoint_create_commit", "post_savepoint_create_commit"]
ROLLBACK_POINTS = ["pre_rollback_commit", "post_rollback_commit"]


def _gen(out, family, seed, n, extra):
    tmp = out + ".part%d" % os.getpid()
    ordv(["gen", "--family", family, "--seed", str(seed), "--n", str(n), "--out", tmp] + extra)
    with open(tmp) as f:
        data = f.read()
    os.remove(tmp)
    return data


def settings_args(ci, si, ms, flags="sats,runes,addresses"):
    return ["--ci", str(ci), "--si", str(si), "--ms", str(ms), "--flags", flags]


def scenarios_c14(seed, tier):
    """groups: (ci, si, ms) -> ndjson text"""
    groups = {}

    def add(key, text):
        groups[key] = groups.get(key, "") + text

    # defaults 10/2: (height, depth) pairs around the savepoint phases
    if tier == "quick":
        hs = [2, 3, 6, 9, 11, 19, 21, 25, 38]
        ds = [1, 2, 3, 6, 10, 11, 14, 18, 21]
    else:
        hs = list(range(2, 46))
        ds = list(range(1, 23))
    k = 0
    for h in hs:
        for d in ds:
            if d >= h + 1:
                continue
            k += 1
            if tier == "quick" and k % 3 != seed % 3:
                continue
            add((5000, 10, 2), _gen(WORK + "/g", "reorg", seed * 100003 + k, 1,
                                    settings_args(5000, 10, 2) + ["--h", str(h), "--d", str(d), "--batch", "1",
                                                                  "--tag", "a%dh%dd%d" % (seed, h, d)]))
    # small settings: every pair
    smalls = [(2, 3, 2)] if tier == "quick" else [(2, 3, 2), (3, 4, 3), (1, 2, 1), (4, 5, 2), (6, 3, 3)]
    for (ci, si, ms) in smalls:
        hmax = 10 if tier == "quick" else 16
        for h in range(2, hmax + 1):
            for d in range(1, min(h, 3 * si + 1) + 1):
                for batch in ([1, 3] if tier == "thorough" else [1 + (h + d) % 3]):
                    add((ci, si, ms), _gen(WORK + "/g", "reorg", seed * 7919 + h * 100 + d, 1,
                                           settings_args(ci, si, ms) + ["--h", str(h), "--d", str(d), "--batch", str(batch),
                                                                        "--tag", "b%d_%d_%d_%dh%dd%db%d" % (seed, ci, si, ms, h, d, batch)]))
    # random histories with consecutive and nested forks
    nrand = 6 if tier == "quick" else 60
    for (ci, si, ms) in ([(2, 3, 2), (5000, 10, 2)] if tier == "quick" else [(2, 3, 2), (5000, 10, 2), (3, 4, 3), (1, 2, 1)]):
        add((ci, si, ms), _gen(WORK + "/g", "proto", seed, nrand,
                               settings_args(ci, si, ms) + ["--ops", "30", "--tag", "r%d_%d_%d_%d" % (seed, ci, si, ms)]))
    return groups


def scenarios_c13(seed, tier):
    groups = {}

    def add(key, text):
        groups[key] = groups.get(key, "") + text

    settings = [(2, 3, 2)] if tier == "quick" else [(2, 3, 2), (1, 2, 1), (3, 4, 3), (5000, 10, 2)]
    occs = [1, 2] if tier == "quick" else [1, 2, 3, 4]
    for (ci, si, ms) in settings:
        for point in CRASH_POINTS:
            for occ in occs:
                add((ci, si, ms), _gen(WORK + "/g", "crash", seed * 31 + occ, 1,
                                       settings_args(ci, si, ms) + ["--point", point, "--occ", str(occ), "--pre", "3",
                                                                    "--more", "6", "--tag", "c%d_%d_%d_%d%s%d" % (seed, ci, si, ms, point, occ)]))
        for point in ROLLBACK_POINTS + (CRASH_POINTS if tier == "thorough" else ["post_commit_main", "post_savepoint_delete_commit"]):
            for occ in ([1] if point in ROLLBACK_POINTS else [1, 2]):
                add((ci, si, ms), _gen(WORK + "/g", "crash", seed * 37 + occ, 1,
                                       settings_args(ci, si, ms) + ["--point", point, "--occ", str(occ), "--pre", "4",
                                                                    "--more", "3", "--fork-depth", "1",
                                                                    "--tag", "f%d_%d_%d_%d%s%d" % (seed, ci, si, ms, point, occ)]))
        # crashed run vs uninterrupted control, continuing after the crash with more blocks and a reorg
        pts = CRASH_POINTS if tier == "thorough" else ["post_commit_main", "post_savepoint_delete_commit", "post_savepoint_create_commit", "post_block"]
        combos = [(pre, more, later, depth) for pre in (4, 6, 7) for more in (2, 3) for later in (0, 1, 2) for depth in (2, 3, 4)]
        for point in pts:
            sel = combos
            if tier == "quick":
                sel = [c for i, c in enumerate(combos) if i % 9 == seed % 9]
            for (pre, more, later, depth) in sel:
                for occ in ([1, 2] if tier == "quick" else [1, 2, 3]):
                    add((ci, si, ms), _gen(WORK + "/g", "crashpair", seed * 41 + occ, 1,
                                           settings_args(ci, si, ms) + ["--point", point, "--occ", str(occ), "--pre", str(pre), "--more", str(more),
                                                                        "--later", str(later), "--depth", str(depth),
                                                                        "--tag", "cp%d_%d_%d_%d%s%d_%d%d%d%d" % (seed, ci, si, ms, point, occ, pre, more, later, depth)]))
        # random histories with crashes (below); first: the default spacing, where the recoverable window is wide
        # enough for savepoint bookkeeping that went stale in a crash to matter at a later reorg
        if (ci, si, ms) == settings[0]:
            dci, dsi, dms = 5000, 10, 2
            for point in ["post_savepoint_create_commit", "post_savepoint_delete_commit", "post_commit_main"]:
                for (pre, more, later, depth) in [(21, 10, 1, 5), (21, 10, 3, 8), (21, 12, 2, 6), (11, 10, 1, 4), (31, 10, 2, 7)]:
                    for occ in [1, 2]:
                        add((dci, dsi, dms), _gen(WORK + "/g", "crashpair", seed * 43 + occ, 1,
                                                  settings_args(dci, dsi, dms) + ["--point", point, "--occ", str(occ), "--pre", str(pre), "--more", str(more),
                                                                                  "--later", str(later), "--depth", str(depth),
                                                                                  "--tag", "cq%d%s%d_%d_%d_%d_%d" % (seed, point, occ, pre, more, later, depth)]))
        # random histories with crashes
        add((ci, si, ms), _gen(WORK + "/g", "proto", seed + 17, 4 if tier == "quick" else 40,
                               settings_args(ci, si, ms) + ["--ops", "24", "--no-forks", "--crash-points", ",".join(CRASH_POINTS),
                                                            "--tag", "k%d_%d_%d_%d" % (seed, ci, si, ms)]))
    return groups


def scenarios_c13_kill(seed, tier):
    """The updating process is killed (SIGKILL) a few milliseconds after its k-th commit, several times in a row."""
    groups = {}
    settings = [(3, 4, 2)] if tier == "quick" else [(3, 4, 2), (1, 2, 1), (2, 3, 2), (7, 10, 2)]
    n = 2 if tier == "quick" else 8
    for k, (ci, si, ms) in enumerate(settings):
        delays = ",".join(str(c * 1000 + j) for c, j in [(2, 0), (3, 1), (2, 3), (4, 7), (3, 13), (2, 21), (5, 2), (1, 5)][: 6 if tier == "quick" else 8])
        groups[(ci, si, ms)] = _gen(WORK + "/g", "kill", seed * 47 + k, n,
                                    settings_args(ci, si, ms) + ["--more", "70", "--delays", delays, "--tag", "kl%d_%d_%d_%d" % (seed, ci, si, ms)])
    return groups


def scenarios_c12(seed, tier):
    groups = {}

    def add(key, text):
        groups[key] = groups.get(key, "") + text

    chains = 2 if tier == "quick" else 12
    blocks = 24 if tier == "quick" else 40
    cis = [1, 2, 3, 7, 5000]
    flagsets = ["sats,runes,addresses", "runes"] if tier == "quick" else \
        ["sats,runes,addresses", "runes", "sats,runes,addresses,transactions", "addresses", "sats"]
    # a cursed first inscription and, one block later, a clean reinscription of its sat: indexed by one update (one
    # commit batch when the commit interval is large) or by two -- numbering must not depend on that
    for fl in flagsets[:2]:
        for ci in cis:
            for split in ([], ["--split"]):
                add((ci, 10, 2), _gen(WORK + "/g", "reinscribe", seed, 3, settings_args(ci, 10, 2, fl) + split + ["--tag", "ri%d" % seed]))
    for c in range(chains):
        for fl in flagsets:
            for ci in cis:
                for sched in range(2 if tier == "quick" else 4):
                    add((ci, 10, 2), _gen(WORK + "/g", "sched", seed * 1009 + c, 1,
                                          settings_args(ci, 10, 2, fl) + ["--blocks", str(blocks), "--sched", str(sched * 13 + ci),
                                                                          "--tag", "s%dc%d" % (seed, c)]))
    return groups


def run_groups(prop, groups, outcome, verdict_props, strict=True, update_timeout=25):
    """Run every settings group on the real index, validate verdict (ProtoTrace) and strict replay."""
    stats = {"scenarios": 0, "events": 0, "updates": 0, "forks": 0, "crashes": 0, "digests": 0, "drift": 0,
             "samples": [], "distinct": set()}
    all_trace = os.path.join(WORK, "proto-%s-all-%d.ndjson" % (prop, os.getpid()))
    with open(all_trace, "w") as allf:
        for key, text in sorted(groups.items()):
            ci, si, ms = key
            scen = os.path.join(WORK, "scen-%s-%d_%d_%d.ndjson" % (prop, ci, si, ms))
            with open(scen, "w") as f:
                f.write(text)

            def produce(path, scen=scen):
                ordv(["run", "--scenarios", scen, "--trace", path, "--digest-only", "--protocol", "--no-state",
                      "--update-timeout", str(update_timeout)], timeout=14400)
            trace = cached_trace(["proto", text], produce)
            lines = read_ndjson(trace)
            for x in lines:
                e = x["e"]
                stats["events"] += 1
                if e == "Reset":
                    stats["scenarios"] += 1
                elif e == "Update":
                    stats["updates"] += 1
                elif e == "Pop":
                    stats["forks"] += 1
                elif e == "Crash":
                    stats["crashes"] += 1
                    stats["distinct"].add(("crash", x["point"], x["occ"], x["count"], tuple(x["durable"]), ci, si, ms))
                elif e in ("Digest", "Fresh"):
                    stats["digests"] += 1
                elif e == "ReorgDetected":
                    stats["distinct"].add(("reorg", x["height"], x["depth"], x["recoverable"], ci, si, ms))
                elif e == "CommitMain":
                    stats["distinct"].add(("commit", x["height"], ci, si, ms))
            with open(trace) as f:
                allf.write(f.read())
            if strict:
                cfg = os.path.join(WORK, "IndexerTrace-%d_%d_%d.cfg" % (ci, si, ms))
                with open(os.path.join(common.SPEC, "IndexerTrace.cfg.tmpl")) as f:
                    t = f.read().replace("@CI@", str(ci)).replace("@SI@", str(si)).replace("@MS@", str(ms))
                with open(cfg, "w") as f:
                    f.write(t)
                res = run_tlc("IndexerTrace.tla", cfg, env={"TRACE": trace}, timeout=3000)
                if res["timeout"]:
                    raise ToolError("IndexerTrace timed out")
                matched, total, fails, _ = parse_trace_result(res["out"])
                if matched is None:
                    log(res["out"][-2000:])
                    raise ToolError("IndexerTrace produced no verdict")
                if matched != total:
                    detail = " ".join(x for x in res["out"].splitlines() if "FAIL" in x)[:500]
                    if any(f.startswith("C13.") for f in fails) and prop == "C13":
                        sc = scenario_at(lines, scen, matched + 1)
                        outcome.violation("strict replay rejected at line %d: %s" % (matched + 1, detail),
                                          {"property": prop, "kind": "proto", "settings": key, "scenario": sc,
                                           "fails": fails, "tlc_tail": res["out"][-2000:]})
                    else:
                        stats["drift"] += 1
                        outcome.notes.append("MODEL-DRIFT spec=Indexer settings=%s event=%d %s" % (key, matched + 1, detail))
    # verdict channel on the concatenation (dig is shared across groups)
    for vp in verdict_props:
        res = run_tlc("ProtoTrace.tla", "ProtoTrace.cfg", env={"TRACE": all_trace, "PROP": vp}, timeout=3000)
        if res["timeout"]:
            raise ToolError("ProtoTrace timed out")
        matched, total, fails, known = parse_trace_result(res["out"])
        if matched is None:
            log(res["out"][-2000:])
            raise ToolError("ProtoTrace produced no verdict")
        listed = known_keys(prop)
        lines = read_ndjson(all_trace)
        for k in set(known):
            if k in listed:
                outcome.known.append("%s: %s" % (k, listed[k]["title"]))
            else:
                # find the first line of that class
                m = [x for x in res["out"].splitlines() if '"KNOWN"' in x and k in x]
                outcome.violation("finding class %s is not a recorded known finding: %s" % (k, (m[0] if m else "")[:300]),
                                  {"property": prop, "kind": "proto", "class": k, "detail": m[:3],
                                   "scenario": first_scenario_with(lines, k, res["out"])})
        if matched != total:
            detail = " ".join(x for x in res["out"].splitlines() if "FAIL" in x)[:600]
            outcome.violation("trace rejected at line %d (%s): %s" % (matched + 1, ",".join(fails[:3]), detail),
                              {"property": prop, "kind": "proto", "scenario": scenario_lines(lines, matched + 1),
                               "first_unmatched_event": lines[matched] if matched < len(lines) else None,
                               "fails": fails, "tlc_tail": res["out"][-2000:]})
        stats["matched"] = matched
        stats["total"] = total
    os.remove(all_trace)
    return stats


def scenario_lines(lines, line_no):
    i = min(line_no, len(lines)) - 1
    while i > 0 and lines[i]["e"] != "Reset":
        i -= 1
    return {"name": lines[i].get("name"), "settings": [lines[i].get("commitInterval"), lines[i].get("savepointInterval"),
                                                       lines[i].get("maxSavepoints")]}


def first_scenario_with(lines, k, out):
    import re
    m = re.search(r'"KNOWN", "%s", "line", (\d+)' % re.escape(k), out)
    if not m:
        return None
    return scenario_lines(lines, int(m.group(1)))


def scenario_at(lines, scen_path, line_no):
    name = scenario_lines(lines, line_no)["name"]
    with open(scen_path) as f:
        for row in f:
            if row.strip() and json.loads(row)["name"] == name:
                return json.loads(row)
    return None


def run(prop, tier, seed):
    t0 = time.time()
    outcome = Outcome(prop)
    if prop == "C14":
        groups = scenarios_c14(seed, tier)
        st = run_groups(prop, groups, outcome, ["C14"])
        rule = ("reorg cases (index h blocks, replace the last d by d+1, update, compare with a from-scratch index) for "
                "(h, d) pairs around every savepoint phase under several (commit interval, savepoint interval, max "
                "savepoints) settings, plus seeded random histories with consecutive/nested forks; distinct_nontrivial = "
                "distinct (reorg height, depth, classification, settings) and commit heights observed")
    elif prop == "C13":
        groups = scenarios_c13(seed, tier)
        st = run_groups(prop, groups, outcome, ["C13"])
        # kills at arbitrary moments: no hook decides where, so the event stream may lag behind what is durable --
        # these runs are judged by ProtoTrace only (height at least the last reported commit, content equal to a
        # from-scratch index of that prefix and of the tip), not by the strict replay
        st2 = run_groups(prop, scenarios_c13_kill(seed, tier), outcome, ["C13"], strict=False, update_timeout=60)
        for k, v in st2.items():
            if isinstance(v, set):
                st[k] |= v
            elif isinstance(v, int) and k not in ("matched", "total"):
                st[k] += v
        rule = ("fault enumeration: every crash point of the guarded tracer x occurrence x settings, a child process "
                "aborts there while indexing; the parent reopens, compares count with the last durable commit, content "
                "with a from-scratch index of that prefix, continues to the tip and compares again; in addition the updating "
                "process is killed (SIGKILL, no hook) a few milliseconds after its k-th commit, several times in a row, while it "
                "works through a 70-block backlog with frequent commits; distinct_nontrivial = "
                "distinct (crash point, occurrence, recovered count, durable history, settings)")
    elif prop == "C12":
        groups = scenarios_c12(seed, tier)
        st = run_groups(prop, groups, outcome, ["C12"])
        rule = ("the same chains indexed under commit intervals {1,2,3,7,5000}, random partitions into update calls and "
                "reopen points, several index flag sets; the content digest must be a function of (flags, chain prefix); "
                "distinct_nontrivial = distinct commit heights per settings")
    else:
        raise ToolError("not a protocol property: %s" % prop)
    cov = {
        "evaluations": st["updates"] + st["digests"],
        "distinct_nontrivial": len(st["distinct"]),
        "rule": rule,
        "samples": [list(x) for x in sorted(st["distinct"], key=str)[:6]],
        "scenarios": st["scenarios"], "trace_events": st["events"], "updates": st["updates"],
        "branch_switches": st["forks"], "crashes": st["crashes"], "digest_observations": st["digests"],
        "traces_validated_against_impl": st["scenarios"], "model_drift_reports": st["drift"],
        "events_matched": st.get("matched"), "events_total": st.get("total"),
    }
    return outcome, cov, time.time() - t0
