#!/usr/bin/env python3
"""Regenerate /verif/MANIFEST.json from lib/claims.py (one source of truth for what is claimed)."""
import json
import os
import subprocess
import sys

sys.path.insert(0, os.path.dirname(os.path.abspath(__file__)))
import claims  # noqa: E402

VERIF = os.path.dirname(os.path.dirname(os.path.abspath(__file__)))

props = [json.loads(x)["id"] for x in open(os.path.join(VERIF, "properties.jsonl")) if x.strip()]
hooks = subprocess.run(["git", "-C", "/repo", "log", "--format=%H %s", "a57bfc1..HEAD"],
                       stdout=subprocess.PIPE, text=True).stdout.splitlines()
hook_commits = [h.split()[0] for h in hooks if not h.split(" ", 1)[1].startswith("fix:")]

checks = []
for p in props:
    c = claims.CLAIMS.get(p)
    if not c:
        continue
    checks.append({
        "property_id": p,
        "quick_cmd": "./check %s --tier quick" % p,
        "thorough_cmd": "./check %s --tier thorough" % p,
        "evidence_file": "/verif/evidence/%s.json" % p,
        "replay_cmd_template": "./check %s --replay {path}" % p,
        "engine": c["engine"],
        "level_claimed": {"category": c["level"], "text": c["text"], "design_ref": c.get("design_ref", "DESIGN.md section 5")},
        "level_note": c["note"],
        "technique": c["technique"],
    })

manifest = {
    "version": 1,
    "setup_cmd": "cd /verif/harness && CARGO_NET_OFFLINE=true cargo build --offline",
    "hooks": {
        "guard": "cargo feature `verif` on crate ord and on crate mockcore (ord's mock node, crates/mockcore); both off by default",
        "enable": "the harness crate /verif/harness depends on ord and mockcore by path with features = [\"verif\"]; every check runs `cargo build --offline` there, which rebuilds ord from /repo's working tree with the feature on",
        "baseline_off_cmd": "cd /repo && cargo test --workspace --no-fail-fast --offline",
        "source_commits": hook_commits,
        "add_only": True,
    },
    "engines": claims.ENGINES,
    "checks": checks,
    "notes": claims.NOTES,
    "not_applicable": [{"property_id": p, "reason": claims.NOT_APPLICABLE.get(p, "check not built yet (see DESIGN.md section 9 build order); not claimed")}
                       for p in props if p not in claims.CLAIMS],
}
with open(os.path.join(VERIF, "MANIFEST.json"), "w") as f:
    json.dump(manifest, f, indent=1)
print("claimed", len(checks), "not claimed", len(manifest["not_applicable"]))
