#!/usr/bin/env python3
"""Run ord's test suite with the verif feature OFF and compare with /root/.vp/BASELINE.json stable_pass."""
import json, re, subprocess, sys
# wallet::resume::resume_suspended can hang forever on a loaded machine: it is run on its own, under a timeout
out = subprocess.run("cd /repo && timeout 7200 cargo test --workspace --no-fail-fast --offline -- --skip resume_suspended 2>&1; "
                     "timeout 900 cargo test --offline -p ord --test integration resume_suspended 2>&1", shell=True,
                     stdout=subprocess.PIPE, text=True).stdout
open('/verif/work/baseline_full.log', 'w').write(out)
b = json.load(open('/root/.vp/BASELINE.json'))
sp = set(b['stable_pass'])
res = {}
crate = None
for line in out.splitlines():
    m = re.match(r'\s*Running (unittests )?(\S+)', line)
    if m:
        path = m.group(2)
        crate = 'ord::integration' if 'tests/lib.rs' in path else None
        if 'src/lib.rs' in path:
            crate = None
        cur = line
    m = re.match(r'test (\S+)(?: - should panic)? \.\.\. (ok|FAILED|ignored)', line)
    if m:
        res.setdefault(m.group(1), m.group(2))
def status(name):
    # stable names look like <crate>::<path>; cargo prints <path>
    parts = name.split('::')
    for k in range(1, 3):
        short = '::'.join(parts[k:])
        if short in res:
            return res[short]
    return None
bad = [n for n in sorted(sp) if status(n) != 'ok']
print("stable_pass", len(sp), "not ok", len(bad))
for n in bad[:40]:
    print("  ", n, status(n))
sys.exit(1 if bad else 0)
