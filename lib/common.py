"""Shared machinery for ./check: harness build, TLC runners, evidence, replay files."""
import hashlib
import json
import os
import re
import shutil
import subprocess
import sys
import time

VERIF = os.path.dirname(os.path.dirname(os.path.abspath(__file__)))
SPEC = os.path.join(VERIF, "spec")
WORK = os.path.join(VERIF, "work")
HARNESS = os.path.join(VERIF, "harness")
# VERIF_TARGET_DIR: build and run the harness from another cargo target directory (used to try seeded changes
# while another check is running from the default one)
TARGET = os.environ.get("VERIF_TARGET_DIR") or os.path.join(HARNESS, "target")
ORDV = os.path.join(TARGET, "debug", "ordv")
EVIDENCE = os.path.join(VERIF, "evidence")
REPLAYS = os.path.join(VERIF, "replays")
KNOWN = os.path.join(VERIF, "known_findings.json")


class ToolError(Exception):
    pass


def log(*a):
    print(*a, flush=True)


def ensure_dirs():
    for d in (WORK, EVIDENCE, REPLAYS, os.path.join(WORK, "tlc")):
        os.makedirs(d, exist_ok=True)


def build_harness():
    """(Re)build the harness against /repo's current working tree with the verif feature."""
    t = time.time()
    env = dict(os.environ, CARGO_NET_OFFLINE="true")
    if os.environ.get("VERIF_TARGET_DIR"):
        env["CARGO_TARGET_DIR"] = TARGET
    r = subprocess.run(["cargo", "build", "--offline"], cwd=HARNESS, env=env,
                       stdout=subprocess.PIPE, stderr=subprocess.STDOUT, text=True)
    if r.returncode != 0:
        sys.stdout.write(r.stdout[-6000:])
        raise ToolError("harness build failed")
    return time.time() - t


def file_sha(path):
    h = hashlib.sha256()
    with open(path, "rb") as f:
        for chunk in iter(lambda: f.read(1 << 20), b""):
            h.update(chunk)
    return h.hexdigest()


def ordv(args, timeout=3600, env=None):
    e = dict(os.environ)
    if env:
        e.update(env)
    r = subprocess.run([ORDV] + args, stdout=subprocess.PIPE, stderr=subprocess.PIPE, text=True,
                       timeout=timeout, env=e)
    if r.returncode != 0:
        # a panic raised inside ord's own code (under /repo) while a driver was exercising it is data about the
        # code under test, not a tool failure; panics in the harness itself stay tool failures
        m = re.search(r"panicked at (/repo/[^\s]+?):?\n([^\n]*)", r.stderr)
        if r.returncode == 101 and m:
            raise UnderTestPanic(" ".join(args), m.group(1), m.group(2).strip()[:300], r.stderr[-3000:])
        sys.stdout.write(r.stdout[-3000:])
        sys.stdout.write(r.stderr[-6000:])
        raise ToolError("ordv %s failed with %d" % (" ".join(args[:2]), r.returncode))
    return r.stdout


class UnderTestPanic(Exception):
    """ord code panicked outside the reach of a driver's own catch_unwind."""

    def __init__(self, command, where, message, stderr):
        Exception.__init__(self, "%s: %s" % (where, message))
        self.command, self.where, self.message, self.stderr = command, where, message, stderr


def cached_trace(key_parts, produce):
    """Reuse a trace only under a key that captures everything it depends on:
    the harness binary (rebuilt from /repo's working tree before every check), the
    scenario file content and the run options."""
    h = hashlib.sha256()
    h.update(file_sha(ORDV).encode())
    for p in key_parts:
        h.update(str(p).encode())
    key = h.hexdigest()[:24]
    path = os.path.join(WORK, "trace-%s.ndjson" % key)
    if os.environ.get("VERIF_NO_CACHE") or not os.path.exists(path):
        tmp = path + ".tmp%d" % os.getpid()
        produce(tmp)
        os.replace(tmp, path)
    return path


TLC_NOISE = re.compile(r"^(Parsing|Semantic|Linting|Picked up)")


def run_tlc(module, cfg, env=None, workers=1, timeout=900, extra=None, deque=True, xmx=None):
    """Run TLC; returns dict(out, states, distinct, ok, error)."""
    ensure_dirs()
    meta = os.path.join(WORK, "tlc", "m%d_%d" % (os.getpid(), int(time.time() * 1000) % 100000000))
    e = dict(os.environ)
    opts = "-Xss1g"
    if deque:
        opts += " -Dtlc2.tool.queue.IStateQueue=StateDeque"
    if xmx:
        opts += " -Xmx%s" % xmx
    e["JAVA_TOOL_OPTIONS"] = opts
    if env:
        e.update(env)
    cmd = ["timeout", str(timeout), "tlc", "-workers", str(workers), "-metadir", meta, "-cleanup",
           "-noGenerateSpecTE", "-config", cfg, module]
    if extra:
        cmd += extra
    t = time.time()
    r = subprocess.run(cmd, cwd=SPEC, env=e, stdout=subprocess.PIPE, stderr=subprocess.STDOUT, text=True)
    shutil.rmtree(meta, ignore_errors=True)
    out = "\n".join(x for x in r.stdout.splitlines() if not TLC_NOISE.match(x))
    res = {"out": out, "rc": r.returncode, "wall": time.time() - t}
    m = re.search(r"(\d[\d,]*) states generated, (\d[\d,]*) distinct states found", out)
    if m:
        res["states"] = int(m.group(1).replace(",", ""))
        res["distinct"] = int(m.group(2).replace(",", ""))
    res["completed"] = "Model checking completed. No error has been found." in out
    res["timeout"] = r.returncode == 124
    return res


def parse_trace_result(out):
    """Parse the output of a trace-validation run."""
    m = re.search(r'"MATCHED", (\d+), "OF", (\d+)', out)
    matched, total = (int(m.group(1)), int(m.group(2))) if m else (None, None)
    fails = re.findall(r'<<\s*"FAIL",\s*"([^"]+)"', out)
    known = re.findall(r'<<\s*"KNOWN",\s*"([^"]+)"', out)
    return matched, total, fails, known


def read_ndjson(path):
    with open(path) as f:
        return [json.loads(x) for x in f if x.strip()]


def load_known():
    if not os.path.exists(KNOWN):
        return []
    with open(KNOWN) as f:
        return json.load(f)["findings"]


def known_keys(prop):
    return {k["key"]: k for k in load_known() if k["property"] == prop and k["status"] == "known"}


def write_replay(prop, payload):
    ensure_dirs()
    body = json.dumps(payload, sort_keys=True)
    h = hashlib.sha256(body.encode()).hexdigest()[:12]
    path = os.path.join(REPLAYS, "%s-%s.json" % (prop, h))
    with open(path, "w") as f:
        f.write(body)
    return path


def write_evidence(prop, tier, seed, level, coverage, assumptions, wall, violations=0):
    ensure_dirs()
    ev = {"property_id": prop, "tier": tier, "seed": seed, "level": level, "coverage": coverage,
          "assumptions": assumptions, "wall_s": round(wall, 2), "violations": violations}
    with open(os.path.join(EVIDENCE, "%s.json" % prop), "w") as f:
        json.dump(ev, f, indent=1)


class Outcome:
    """Accumulates the verdict of one check."""

    def __init__(self, prop):
        self.prop = prop
        self.violations = []   # (description, replay path)
        self.known = []        # descriptions
        self.notes = []

    def violation(self, desc, replay_payload):
        path = write_replay(self.prop, replay_payload)
        self.violations.append((desc, path))

    def finish(self):
        for k in sorted(set(self.known)):
            log("KNOWN-FINDING: property=%s %s" % (self.prop, k))
        for n in self.notes:
            log(n)
        if self.violations:
            for desc, path in self.violations:
                log("VIOLATION property=%s replay=%s" % (self.prop, path))
                log("  " + desc)
            return 1
        log("OK property=%s" % self.prop)
        return 0
