"""What MANIFEST.json claims, per property."""

ENGINES = [
    {"name": "ledger-trace", "path": "spec/LedgerTrace.tla",
     "serves_properties": ["C01", "C02", "C03", "C04", "C05", "C06", "C07", "C08", "C09", "C10", "C11", "C16", "C17", "C37"],
     "kind_free_text": "TLA+ trace specification (reference BIP sat ledger, sat-level inscription tracking, rune protocol rules, event observer) validated by TLC against traces recorded from the real ord::Index driven by the harness on a mock node"},
]

NOTES = ("Model-based verification with explicit TLA+ specifications (spec/*.tla). TLC is the judge: every check "
         "rebuilds the harness against /repo's working tree (cargo feature verif), drives the real code, records an "
         "ndjson trace and lets TLC validate it against the specification; design-level models are checked "
         "exhaustively by TLC for small constants. See DESIGN.md.")

NOT_APPLICABLE = {}

_LT = ("TLC trace validation: every projected index state recorded after Index::update() on seeded random valid "
       "chains (real blocks on a mock node) must be a behaviour of spec/LedgerTrace.tla with PROP=%s; the predicates "
       "are the property's clauses evaluated on the whole observed state against the reference fold of the blocks")
_NOTE = ("trusted: TLC, the harness block builder and projection (labels/units, no oracle logic), mockcore; values "
         "are multiples of 10^6 sats; coinbase maturity not enforced; heights below the first halving")


def _lt(p, extra=""):
    return {"engine": "ledger-trace", "level": "exploration", "text": (_LT % p) + extra, "note": _NOTE,
            "technique": "TLA+ trace validation with TLC (spec/LedgerTrace.tla) of traces recorded from the real indexer"}


CLAIMS = {p: _lt(p) for p in ["C01", "C02", "C03", "C04", "C05", "C06", "C07", "C08", "C09", "C10", "C11", "C16", "C17", "C37"]}
