"""What MANIFEST.json claims, per property."""

ENGINES = [
    {"name": "ledger-trace", "path": "spec/LedgerTrace.tla",
     "serves_properties": ["C01", "C02", "C03", "C04", "C05", "C06", "C07", "C08", "C09", "C10", "C11", "C16", "C17", "C37"],
     "kind_free_text": "TLA+ trace specification (reference BIP sat ledger, sat-level inscription tracking, rune protocol rules, event observer) validated by TLC against traces recorded from the real ord::Index driven by the harness on a mock node"},
]

NOTES = ("Model-based verification with explicit TLA+ specifications (spec/*.tla). TLC is the judge: every check "
         "rebuilds the harness against /repo's working tree (cargo feature verif), drives the real code, records an "
         "ndjson trace and lets TLC validate it against the specification; design-level models are checked "
         "exhaustively by TLC for small constants. See DESIGN.md.")

NOT_APPLICABLE = {}

ENGINES.append({"name": "indexer-protocol", "path": "spec/Indexer.tla",
                "serves_properties": ["C12", "C13", "C14"],
                "kind_free_text": "TLA+ model of the indexing protocol (commit batches, savepoints, reorg detection and rollback, crash/reopen) checked exhaustively by TLC; spec/IndexerTrace.tla replays recorded tracer events against its actions; spec/ProtoTrace.tla judges the observable contract (termination, agreement with the node, content digest a function of the chain, durable heights after crashes)"})

_LT = ("TLC trace validation: every projected index state recorded after Index::update() on seeded random valid "
       "chains (real blocks on a mock node) must be a behaviour of spec/LedgerTrace.tla with PROP=%s; the predicates "
       "are the property's clauses evaluated on the whole observed state against the reference fold of the blocks")
_NOTE = ("trusted: TLC, the harness block builder and projection (labels/units, no oracle logic), mockcore; values "
         "are multiples of 10^6 sats; coinbase maturity not enforced; heights below the first halving")


def _lt(p, extra=""):
    return {"engine": "ledger-trace", "level": "exploration", "text": (_LT % p) + extra, "note": _NOTE,
            "technique": "TLA+ trace validation with TLC (spec/LedgerTrace.tla) of traces recorded from the real indexer"}


CLAIMS = {p: _lt(p) for p in ["C01", "C02", "C03", "C04", "C05", "C06", "C07", "C08", "C09", "C10", "C11", "C16", "C17", "C37"]}
for _p in ("C01", "C02"):
    CLAIMS[_p]["level"] = "model_checking"
    CLAIMS[_p]["text"] = ("TLC checks spec/SatLedger.tla exhaustively for small constants: blocks built from every choice of inputs, output "
                          "values (fees, zero-value outputs, same-block spends) and coinbase claims; the range ledger of spec/Ranges.tla -- "
                          "the reference that LedgerTrace folds -- refines the literal per-sat BIP assignment (every outpoint's ranges "
                          "flatten to its sat sequence, lost ranges to the lost sats, in order), sats are partitioned over unspent outputs "
                          "and lost, values equal range totals, normalisation and sat lookup preserve meaning. ") + CLAIMS[_p]["text"]
    CLAIMS[_p]["text"] += ("; the scenario families include chains with duplicate coinbase txids (byte-identical coinbases of fee-free blocks): the "
                           "displaced sats are destroyed in the reference ledger and the partition and lookup clauses take them into account")
    CLAIMS[_p]["technique"] = ("TLC model checking of the range ledger against the per-sat BIP assignment (spec/SatLedger.tla) + "
                               "TLA+ trace validation with TLC (spec/LedgerTrace.tla) of traces recorded from the real indexer")
CLAIMS["C08"]["level"] = "model_checking"
CLAIMS["C08"]["text"] = ("TLC explores spec/RuneModel.tla: every sequence of up to 2 (thorough: 3) transactions from a small alphabet (any runic "
                         "inputs; one or two outputs, possibly OP_RETURN; runestone, cenotaph or none; up to two edicts with amounts 0/1/5 to any "
                         "output incl. all outputs; pointers; etchings with/without premine and terms; mints of existing and missing runes) applied "
                         "with the rules of spec/RuneRules.tla -- the reference LedgerTrace folds: for every rune, balances + burned = premine + "
                         "mints x amount; no zero balances; mints never exceed the cap and only happen while the terms are open; burned never "
                         "decreases. ") + CLAIMS["C08"]["text"]
CLAIMS["C08"]["technique"] = ("TLC model checking of conservation for the reference rune rules (spec/RuneModel.tla over spec/RuneRules.tla) + "
                              "TLA+ trace validation with TLC (spec/LedgerTrace.tla) of traces recorded from the real indexer")
CLAIMS["C06"]["level"] = "model_checking"
CLAIMS["C06"]["text"] = ("TLC checks spec/InscrFlotsam.tla for every transaction within small constants (up to 2 inputs with up to 2 inscriptions "
                         "already on each, up to 2 new envelopes with any pointer, up to 2 outputs): the updater's per-transaction algorithm "
                         "(inscribed_offsets, pointer handling, flotsam dealt to outputs) flags every inscription whose sat already carries one -- "
                         "except in the recorded forward-pointer class, which the model exhibits --, flags nothing else unless an unbound envelope "
                         "shares the offset, and never flags a clean first envelope on an uninscribed sat. ") + CLAIMS["C06"]["text"]
CLAIMS["C06"]["technique"] = ("TLC model checking of the inscription updater's per-transaction algorithm against the sat-level meaning "
                              "(spec/InscrFlotsam.tla) + TLA+ trace validation with TLC (spec/LedgerTrace.tla) of traces recorded from the real indexer")
ENGINES[0]["kind_free_text"] += "; spec/SatLedger.tla model-checks the range-based reference ledger (spec/Ranges.tla) against the literal per-sat BIP transcription"


_PNOTE = ("trusted: TLC, the harness, mockcore, redb's durability; content equality is judged on a digest of all table rows "
          "except timing/commit bookkeeping; node chain changes only between update calls and always to a strictly longer "
          "chain; mock headers = 0")
CLAIMS["C12"] = {"engine": "indexer-protocol", "level": "model_checking",
                 "text": "TLC checks Indexer.tla exhaustively for small constants (every commit/savepoint/fork/crash interleaving: when "
                         "update returns Ok the index holds exactly the node's chain); the same chains are then indexed by the real code "
                         "under commit intervals 1..5000, random partitions into update calls, reopen points and flag sets, and TLC "
                         "validates the traces against ProtoTrace.tla: the content digest must be a function of (flags, chain prefix)",
                 "note": _PNOTE, "technique": "TLC model checking of spec/Indexer.tla + TLA+ trace validation (ProtoTrace, IndexerTrace) of the real indexer"}
CLAIMS["C13"] = {"engine": "indexer-protocol", "level": "fault_enumeration",
                 "text": "every guarded crash point (mid-block, between blocks, before/after each commit, savepoint deletion/creation, "
                         "rollback) x occurrence x settings: a child process aborts there; the reopened index must be at the last durable "
                         "height (strict replay of the child's events against Indexer.tla), its content must equal a from-scratch index of "
                         "that prefix, and after continuing to the tip it must equal a from-scratch index of the chain (ProtoTrace.tla); "
                         "in a second family the updating process is killed (SIGKILL, no hook) shortly after its k-th commit, several times in a row over a "
                         "70-block backlog, and judged by ProtoTrace alone; TLC also checks Indexer.tla with Crash enabled at every pc",
                 "note": _PNOTE + "; crashes are abort() at hook points and SIGKILL a few milliseconds after the k-th commit (process death, "
                         "possibly inside a redb commit), not power loss",
                 "technique": "crash-point enumeration on the real indexer judged by TLA+ trace validation; TLC model checking of Indexer.tla with crashes"}
CLAIMS["C14"] = {"engine": "indexer-protocol", "level": "model_checking",
                 "text": "TLC checks Indexer.tla for every (height, fork depth, savepoint phase) within small constants incl. liveness "
                         "(every update terminates) -- this is what found the non-terminating rollback that is now repaired; (height, depth) "
                         "reorg cases and random fork histories are replayed on the real index and validated by TLC: the update terminates, "
                         "Ok implies agreement with the node and content equal to a from-scratch index, unrecoverable implies flagged",
                 "note": _PNOTE, "technique": "TLC model checking (safety + liveness) of spec/Indexer.tla + TLA+ trace validation of real reorg runs"}


ENGINES.append({"name": "send-builder", "path": "spec/SendBuilder.tla", "serves_properties": ["C20"],
                "kind_free_text": "TLA+ model of TransactionBuilder's pipeline with the C20 clauses as a predicate; SendModel.tla enumerates a boundary alphabet of wallets exhaustively, every configuration is replayed on the real builder and SendTrace.tla evaluates the clauses on the observed results"})
CLAIMS["C20"] = {"engine": "send-builder", "level": "model_checking",
                 "text": "TLC enumerates every wallet of a boundary alphabet (values around dust/postage thresholds, inscriptions at offsets, runic/locked/inscribed cardinals in the thorough tier, fee rates, three targets) through the pipeline model and checks the C20 clauses and that no internal assertion is reachable (this found the half-vbyte defect, now repaired, and the recorded exact-postage finding); every configuration is then executed on the real TransactionBuilder::build_transaction and TLC evaluates the same clauses on the observed transactions (plus seeded random real-scale wallets); the model result must equal the observed one (drift channel)",
                 "note": "trusted: TLC, harness, bitcoin crate vsize; taproot scripts only; half-integer fee rates <= 1000 sat/vB",
                 "technique": "TLC model checking of spec/SendBuilder.tla + spec-to-implementation replay and TLA+ trace validation (SendTrace)"}


ENGINES.append({"name": "fn-trace", "path": "spec/FnTrace.tla", "serves_properties": ["C26", "C29", "C30", "C31", "C32", "C33", "C34"],
                "kind_free_text": "exact-arithmetic TLA+ definitions (spec/OrdNumbers.tla over spec/BigNat.tla) of varints, sat numbering, rune names, the unlock schedule and decimal amounts; TLC validates (input, output) pairs recorded from the real functions; small design-level models (VarintModel, SatModel) are checked exhaustively"})
_FN = "trusted: TLC, the harness sampling and limb encoding; inputs are boundary classes plus seeded random values, not all values"
def _fn(level, text):
    return {"engine": "fn-trace", "level": level, "text": text, "note": _FN,
            "technique": "TLA+ definitions with exact BigNat arithmetic; TLC trace validation of recorded (input, output) pairs of the real functions"}
CLAIMS["C26"] = _fn("model_checking", "TLC checks the decoder automaton against the property-level definition (value of the first terminated group, fits in 128 bits, documented error classes) for every byte string over a class alphabet up to length 4 and the 18..21-byte boundary, plus encode/decode round trip (VarintModel); the real encode/decode are then evaluated on boundary and random u128 values and byte strings and TLC validates every pair against the same definition")
CLAIMS["C29"] = _fn("model_checking", "SatModel checks the numbering scheme on a small-scale instance (closed form vs block-by-block mining, bijection sat <-> (height, offset)); at true scale TLC recomputes with BigNat, from the BIP definition, the starting sat and subsidy of sampled heights (every halving +-2, difficulty boundaries, the last subsidy height, random; thorough: 800-height windows around all 33 halvings) and, for the first/last/random sats of each, height, offset, epoch, cycle, period, degree, decimal, rarity, common(), charms and name, and the rarity supply table against closed-form counts")
CLAIMS["C30"] = _fn("exploration", "for the same sampled sats the five printed notations are parsed back by the real parser and TLC requires the result to be the sat (the percentile notation is an f64 computation that TLA+ cannot model: only the round trip is required)")
CLAIMS["C31"] = _fn("exploration", "structured cases per grammar (sat integer/decimal/degree/percentile/name, rune, spaced rune, rune id, decimal, inscription id, satpoint; components drawn from magnitude classes 0, small, max-1, max, max+1, >u32, >u64, >u128, leading zeros; separators missing/doubled; non-finite floats) are parsed by the real FromStr under catch_unwind; TLC computes with BigNat what the string denotes and requires: no panic, and accepted => in range and equal to the denoted value; random strings are offered to every parser incl. Outgoing for totality. Found and repaired: degree overflow, NAN%, spaced-rune shift overflow, Decimal overflow/precision panics")
CLAIMS["C32"] = _fn("exploration", "boundary (26^k sums +-1, RESERVED +-1, u128::MAX) and random runes with random spacer masks: TLC checks with BigNat that the printed name denotes the integer under modified base-26, parse(print) is the identity, the commitment is the little-endian encoding without trailing zeros, reserved <=> >= first 27-letter name, spacers print/parse with those past the last letter dropped")
CLAIMS["C33"] = _fn("exploration", "for all five networks TLC checks on recorded minimum_at_height values: non-increasing over consecutive heights (windows around every step; thorough: all 210,006 heights), <= first 13-letter name at the first rune block, zero once the schedule completes, and for boundary/random names that unlock_height is the first height whose minimum is at or below the name (reserved names never unlock)")
CLAIMS["C34"] = _fn("exploration", "u128 boundary (10^k +-1, u128::MAX) and random amounts x divisibilities 0..38: TLC checks the printed digits against the exact quotient/remainder, that parsing the printed number gives value/scale denoting it and that to_integer returns the amount")

ENGINES.append({"name": "settings", "path": "spec/Settings.tla", "serves_properties": ["C36"],
                "kind_free_text": "TLA+ definition of the precedence law (Merge); SettingsModel enumerates every presence subset; SettingsTrace validates recorded Settings::merge results for every key"})
CLAIMS["C36"] = {"engine": "settings", "level": "model_checking",
                 "text": "the space is finite: TLC enumerates every presence subset per key kind and checks the stated law on Merge; every settings key x every subset of sources x two value rotations is run through the real Options parser and Settings::merge (flag, ORD_ environment map, ord.yaml) and TLC requires the resulting value to equal Merge",
                 "note": "trusted: TLC, the harness; config/config_dir themselves and the chain alias flags (--regtest etc.) are not varied; defaults are observed from the no-source row",
                 "technique": "exhaustive enumeration judged by a TLA+ definition (SettingsModel + SettingsTrace)"}
CLAIMS["C15"] = _lt("C15", "; the same scenarios are indexed under several index-flag sets (thorough: 8 sets plus signet chains whose first 112,402 blocks are header-only so that spent values are fetched from the node) and TLC additionally requires the inscription fields named by the property and all rune entries/balances to agree between flag sets (history variable ref)")

ENGINES.append({"name": "runestone", "path": "spec/Runestone.tla", "serves_properties": ["C25"],
                "kind_free_text": "TLA+ definition of runestone deciphering over BigNat integers (fields, delta-encoded edicts, flags, flaw classes and precedence, what a cenotaph keeps); RunestoneTrace validates the real Runestone::decipher / encipher against it"})
CLAIMS["C25"] = {"engine": "runestone", "level": "exploration",
                 "text": "the real Runestone::decipher is run on transactions whose payload encodes enumerated and structured-random integer sequences and on script-level classes; TLC computes Decipher(ints, outputs) from the specification-level definition (spec/Runestone.tla) and requires exact equality of the artifact (kind, flaw by the documented precedence, edicts, etching fields, mint, pointer, what a cenotaph keeps); random well-formed runestones are enciphered and must decipher back with edicts in rune-id order; random payload bytes for totality",
                 "note": "trusted: TLC, the harness script/transaction builder; the byte-level varint layer is C26; integer sequences are enumerated over class alphabets, not all u128 values",
                 "technique": "TLA+ definition of deciphering (BigNat) + TLC trace validation of the real decipher/encipher on enumerated integer sequences"}

ENGINES.append({"name": "envelope", "path": "spec/Envelope.tla", "serves_properties": ["C27"],
                "kind_free_text": "TLA+ model of the envelope instruction automaton and of the field layout of reveal scripts; EnvelopeModel explores every token string up to length 6; EnvelopeTrace validates the real parser and builder"})
CLAIMS["C27"] = {"engine": "envelope", "level": "model_checking",
                 "text": "TLC explores the envelope automaton over every token string up to length 6 (totality, payloads are pushes, a well-formed envelope is found with exactly its payload, nothing without the OP_FALSE OP_IF 'ord' prefix); the same strings (up to length 5/6) are written as real tapscripts and the real RawEnvelope parser must return exactly ParseScript(tokens) with consecutive indices; inscriptions built by ord's reveal-script builder with all field/length combinations must parse back to the same field contents (length + checksum per field), with the push layout and duplicate flag the layout rules predict; compact encodings of pointer/delegate/parent values are checked against the little-endian trimmed definition; arbitrary witness bytes never panic",
                 "note": "trusted: TLC, the harness; field contents are compared by length and 32-bit checksum; token strings abstract push contents",
                 "technique": "TLC model checking of the envelope automaton (EnvelopeModel) + TLA+ trace validation of the real parser/builder"}

ENGINES.append({"name": "explorer", "path": "spec/ContentTrace.tla", "serves_properties": ["C18", "C19"],
                "kind_free_text": "TLA+ decision table for content serving (ContentTrace) and view definitions of the JSON/recursive endpoints over the projected index state (ExplorerTrace); TLC validates responses recorded from the real explorer served in-process over real HTTP"})
CLAIMS["C18"] = {"engine": "explorer", "level": "exploration",
                 "text": "the real explorer serves replayed indexes in-process; every output, inscription, inscribed sat, block and rune of the state is requested on the JSON and recursive routes and TLC requires each response to equal the corresponding view of the State projected from the index tables (listings paginated by 100 in creation order, negative sat indices counted back from the newest, `more` flags, output contents, inscription location/value/number/charms incl. lost, parents/children, rune entries, address rows and balances)",
                 "note": "trusted: TLC, the harness projection of JSON to labels/units; the reference is the index state as projected through the guarded hooks, so this checks the explorer against the index, not the index against the chain (that is C01-C11)",
                 "technique": "TLA+ view definitions + TLC trace validation of real HTTP responses (ExplorerTrace)"}
CLAIMS["C19"] = {"engine": "explorer", "level": "exploration",
                 "text": "one real inscription per class of the decision table (content type, encoding, body, delegate target incl. hidden/missing/delegating, hidden by config, reinscribed sat) is served by the real explorer; every content route x Accept-Encoding x csp-origin x decompress configuration is requested and TLC evaluates the table: exact body source, content type, encoding negotiation (pass-through / decompress / 406), immutable caching except for negative sat indices, the content CSP restricted to self or the configured origin plus recursive paths, a CSP header on every response incl. errors, and hidden content never served directly or through a delegate (this found the hidden-delegate leak, now repaired)",
                 "note": "trusted: TLC, the harness HTTP client (no automatic decompression); bodies are tiny so the transport compression layer stays out of the way; invalid content-encoding bytes are left unconstrained",
                 "technique": "TLA+ decision table (ContentTrace) + TLC trace validation of real HTTP responses"}

ENGINES.append({"name": "store-trace", "path": "spec/StoreTrace.tla", "serves_properties": ["C28", "C35"],
                "kind_free_text": "TLC validation of (written, read) pairs recorded from the real storage encoders/decoders and properties encoders/decoders through guarded wrappers; the packed sat-range layout and the decompression bound are defined in TLA+ with BigNat"})
CLAIMS["C35"] = {"engine": "store-trace", "level": "exploration",
                 "text": "every persisted encoding is exercised through the real store/load code on boundary and random values (see rule) and TLC requires read = written; the 11-byte packed sat range is additionally compared with its definition (51-bit base | 33-bit length, little endian) computed with BigNat; a merge of two pseudo-output entries must be the concatenation of both range lists and both inscription lists",
                 "note": "trusted: TLC, the harness, the guarded wrappers (thin calls into the crate-private store/load/merged functions); equality of values is judged by TLC on the logged projections; bit layouts other than the sat range are exercised, not specified",
                 "technique": "TLC trace validation of recorded (written, read) pairs (StoreTrace); packed range layout defined in TLA+"}
CLAIMS["C28"] = {"engine": "store-trace", "level": "exploration",
                 "text": "properties values are encoded by the real inline and packed encoders and through Inscription::new (with/without compression) and decoded by the real decoder; TLC requires the decoded value to equal the original in every encoding; brotli-compressed property fields with expansion ratios around 30:1 and sizes around 4,000,000 bytes must be refused beyond min(30 x len, 4,000,000) and accepted within it; arbitrary bytes never panic",
                 "note": "trusted: TLC, the harness, minicbor/brotli byte syntax (exercised, not specified); the decompression bound is observed through a guarded length hook",
                 "technique": "TLC trace validation of recorded encode/decode pairs and decompression outcomes (StoreTrace)"}

ENGINES.append({"name": "wallet-runes", "path": "spec/WalletRunes.tla", "serves_properties": ["C22", "C23"],
                "kind_free_text": "TLA+ model of the wallet's rune transaction constructors (input selection, output layout, edicts) composed with the rune protocol (RuneRules) and a node that funds with any unlocked output; WalletModel is checked exhaustively by TLC; WalletTrace validates the real `ord wallet` commands run against a mock node and the real index"})
CLAIMS["C22"] = {"engine": "wallet-runes", "level": "model_checking",
                 "text": "TLC explores every wallet of up to 2 (thorough: 3) outputs over 2 runes with balances 0..2, inscribed or not, every send/burn request with amounts 0..3 and every split file of up to 2 outputs, builds the transaction as the wallet does, applies the rune protocol and checks: zero is rejected, each recipient gets exactly what was asked, exactly the asked amount is burned, everything else returns to wallet outputs, nothing lands elsewhere. The real commands (`ord wallet send|burn|split`, subprocesses against a mock node and the real explorer) are run on seeded random inventories; each broadcast transaction is mined and indexed and TLC evaluates the same clauses on the balances the real index reports (this found zero meaning 'all' in send and burn, now repaired); a second pass requires the observed transaction to equal the model's and the index's balances to equal RuneRules' (MODEL-DRIFT only)",
                 "note": "trusted: TLC, the harness, mockcore as the node; amounts are small integers; the exhaustive model abstracts values, fees and scripts",
                 "technique": "TLC model checking of the wallet rune constructors composed with the rune rules (WalletModel) + TLA+ trace validation of the real commands against the real index (WalletTrace)"}
CLAIMS["C23"] = {"engine": "wallet-runes", "level": "model_checking",
                 "text": "in the exhaustive model the node may fund with ANY unlocked wallet outputs; the invariant is that no inscribed or runic output other than the command's subject is spent (violated when the lock step is removed). For every real node-funded command run by the driver (send bitcoin, mint, split, send and burn runes, offer create for a foreign inscription) TLC checks on the recorded trace that every inscribed or runic wallet output that is not the subject was in the node's locked set after the command, that the broadcast transaction spends none of them, and that it spends only wallet outputs; all non-cardinal outputs are made larger than any cardinal one so that the mock node's largest-first funding would pick an unlocked one",
                 "note": "trusted: TLC, the harness, mockcore's lockunspent/fundrawtransaction; `wallet sweep` (also node-funded, not named by the property) is not driven",
                 "technique": "TLC model checking with a nondeterministic funding node (WalletModel) + TLA+ trace validation of the locked set and inputs of real commands (WalletTrace)"}

ENGINES.append({"name": "offer", "path": "spec/Offer.tla", "serves_properties": ["C24"],
                "kind_free_text": "TLA+ transcription of the offer acceptance gate (Decide / AfterSign) with the advertised-trade predicate; OfferModel checks every PSBT shape up to 3 inputs with a signing node that may replace signatures; OfferTrace validates the real `ord wallet offer accept` on generated PSBTs"})
CLAIMS["C24"] = {"engine": "offer", "level": "model_checking",
                 "text": "TLAPS proves Offer!GateSound for PSBTs with any number of inputs (a decision to sign followed by a broadcast implies the advertised trade; spec/OfferProofs.tla, 26 obligations). TLC explores every abstract PSBT of up to 2 (thorough: 3) inputs over 60 input classes (owner x contents {none, X, Y, X+Y, Y+X} x runes x signature {none, standard, not preserved}), both namings, both balance outcomes and every choice of which signatures the node preserves; invariant: a broadcast implies exactly one wallet input holding exactly the named inscription and no runes, the exact balance change, all other inputs signed and their signatures unchanged. Generated concrete PSBTs (damaged well-formed offers) are presented to the real command; TLC requires on the recorded trace that whatever reached the mempool is the offered transaction and satisfies the same predicate with the output contents read from the real index, that refusals broadcast nothing, and (MODEL-DRIFT only) that the outcome equals the model's decision",
                 "note": "trusted: TLC, the harness PSBT builder, mockcore as the node (its walletprocesspsbt/finalizepsbt replace every witness by a fixed 64-byte one, which is what makes 'not preserved' signatures observable; its simulaterawtransaction is told the node's network through the guarded hook)",
                 "technique": "TLAPS proof and TLC model checking of the acceptance gate (OfferProofs, OfferModel) + TLA+ trace validation of the real command on generated PSBTs (OfferTrace)"}

ENGINES.append({"name": "batch", "path": "spec/BatchPlan.tla", "serves_properties": ["C21"],
                "kind_free_text": "TLA+ model of the batch planner's bookkeeping (pointers, postage sums, parent inputs/outputs, reveal layout per mode, reported locations) composed with the indexer's pointer placement rule; BatchModel is checked exhaustively by TLC; BatchTrace validates what the real `ord wallet batch` reports against what the real index holds after mining"})
CLAIMS["C21"] = {"engine": "batch", "level": "model_checking",
                 "text": "TLC explores every small batch (4 modes x 0-2 parents x 1-3 (thorough: 4) inscriptions x values x etching with/without premine): the location the planner reports for each inscription is where the indexer's pointer rule places it, every parent's sat returns to its own output, the reveal is funded and the premine output exists. Random batch files are then run through the real command; after mining, TLC requires on the recorded trace: as many inscriptions as entries and no extra one in the reveal transaction, every reported id exists with the index's satpoint (and the explorer's) equal to the reported location, destinations as asked and as reported, every new inscription's parents in the index equal to the batch's parents, parents back on wallet outputs of the reveal, the commit transaction spending only cardinal wallet outputs (other than the chosen satpoint), the reveal spending no non-cardinal output other than the parents, the chosen sat being the inscribed one, and an included etching creating the named rune with the requested premine held at the reported output (no location reported for a zero premine); the reveal layout and reported locations are also compared with the model's (MODEL-DRIFT only)",
                 "note": "trusted: TLC, the harness, mockcore as the node (no signature or maturity checks beyond what ord itself does); `sat:` selection, compression and gallery entries are not exercised",
                 "technique": "TLC model checking of the planner's bookkeeping against the pointer placement rule (BatchModel) + TLA+ trace validation of reported vs indexed results of the real command (BatchTrace)"}
