------------------------------ MODULE BatchPlan ------------------------------
(* C21: the batch planner's bookkeeping (src/wallet/batch/file.rs File::inscriptions,
   src/wallet/batch/plan.rs Plan::create_batch_transactions / Plan::output) against
   the indexer's placement rule for an inscription that carries a pointer.

   A batch is [mode, pv, post, premine]:
     mode     "shared-output" | "separate-outputs" | "same-sat" | "satpoints"
     pv       values of the parent outputs spent by the reveal (one input and one output each, first)
     post     one postage per inscription (satpoints mode: the value of each inscription's satpoint output);
              same-sat uses only post[1]
     premine  TRUE when an etching with a premine adds a rune output before the runestone
   Values are in arbitrary units; fee > 0 is what the commit output carries beyond the postage. *)
EXTENDS Naturals, Sequences

RECURSIVE Sum(_)
Sum(s) == IF s = <<>> THEN 0 ELSE Head(s) + Sum(Tail(s))
Prefix(s, k) == SubSeq(s, 1, k)

N(b) == Len(b.post)
NP(b) == Len(b.pv)
\* pointer given to inscription i (1-based)
Pointer(b, i) == Sum(b.pv) + (IF b.mode = "same-sat" THEN 0 ELSE Sum(Prefix(b.post, i - 1)))

TotalPostage(b) == IF b.mode = "same-sat" THEN b.post[1] ELSE Sum(b.post)
PostageOuts(b) == CASE b.mode \in {"separate-outputs", "satpoints"} -> b.post
                    [] b.mode = "shared-output" -> << Sum(b.post) >>
                    [] b.mode = "same-sat" -> << b.post[1] >>
\* reveal transaction: input values and output values, in order
RevealIns(b, fee, runePostage) ==
  b.pv \o (IF b.mode = "satpoints" THEN b.post ELSE <<>>)
       \o << (IF b.mode = "satpoints" THEN 0 ELSE TotalPostage(b)) + fee + (IF b.premine THEN runePostage ELSE 0) >>
RevealOuts(b, runePostage) ==
  b.pv \o PostageOuts(b) \o (IF b.premine THEN <<runePostage>> ELSE <<>>) \o (IF b.hasEtching THEN <<0>> ELSE <<>>)
CommitInput(b) == NP(b) + (IF b.mode = "satpoints" THEN N(b) ELSE 0) + 1

\* what the command reports for inscription i: [vout (0-based), off]
Reported(b, i) ==
  [vout |-> NP(b) + (IF b.mode \in {"separate-outputs", "satpoints"} THEN i - 1 ELSE 0),
   off |-> IF b.mode = "shared-output" THEN Sum(Prefix(b.post, i - 1)) ELSE 0]
\* where the premine is reported to land
RuneVout(b) == NP(b) + Len(PostageOuts(b))

\* ---- the indexer: the sat at offset `o` of the transaction's inputs goes to the output covering offset o
RECURSIVE Landing(_, _, _)
Landing(outs, o, k) ==
  IF k > Len(outs) THEN [vout |-> 0 - 1, off |-> o]          \* beyond the outputs: fee
  ELSE IF o < outs[k] THEN [vout |-> k - 1, off |-> o]
  ELSE Landing(outs, o - outs[k], k + 1)
\* an inscription revealed in input `inp` with pointer p: on the sat at offset p if p is inside the
\* outputs, else on the first sat of its input
Placed(ins, outs, inp, p) ==
  LET o == IF p < Sum(outs) THEN p ELSE Sum(Prefix(ins, inp - 1)) IN Landing(outs, o, 1)
=============================================================================
