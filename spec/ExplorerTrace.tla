---------------------------- MODULE ExplorerTrace ----------------------------
(* C18: every JSON / recursive endpoint row must state the same facts as the index
   (the State event projected from the index tables just before the server was
   started).  Listings are paginated by 100 in creation order; negative indices
   count back from the newest.                                                *)
EXTENDS Integers, Sequences, FiniteSets, TLC, Json, IOUtils
Rec == ndJsonDeserialize(IOEnv.TRACE)
VARIABLES l, S
Chk(name, cond, info) == IF cond THEN TRUE ELSE PrintT(<<"FAIL", name, "line", l, info>>) /\ FALSE
ToSet(s) == {s[i] : i \in 1..Len(s)}
PAGE == 100
Min2(a, b) == IF a <= b THEN a ELSE b
PageOf(seq, p) == SubSeq(seq, Min2(p * PAGE + 1, Len(seq) + 1), Min2((p + 1) * PAGE, Len(seq)))
MoreAfter(seq, p) == Len(seq) > (p + 1) * PAGE
I(x) == S.insc[S.inscIdx[x]]
Known(x) == x \in DOMAIN S.inscIdx
Labels(sel) == [k \in 1..Len(sel) |-> sel[k].l]
OnSat(s) == Labels(SelectSeq(S.insc, LAMBDA i : i.sat = s))
InBlock(h) == Labels(SelectSeq(S.insc, LAMBDA i : i.h = h))
OutIns(o) == IF o \in DOMAIN S.outs /\ "ins" \in DOMAIN S.outs[o] THEN [k \in 1..Len(S.outs[o].ins) |-> S.outs[o].ins[k][1]] ELSE <<>>
RuneName(id) == LET k == CHOOSE j \in 1..Len(S.runes) : S.runes[j].id = id IN S.runes[k].name
OutRunes(o) == IF o \in DOMAIN S.outs /\ "runes" \in DOMAIN S.outs[o]
               THEN {<<RuneName(<<S.outs[o].runes[k][1], S.outs[o].runes[k][2]>>), S.outs[o].runes[k][3]>> : k \in 1..Len(S.outs[o].runes)}
               ELSE {}
PairSet(s) == {<<s[k][1], s[k][2]>> : k \in 1..Len(s)}
RECURSIVE SumSeq(_)
SumSeq(s) == IF s = <<>> THEN 0 ELSE Head(s) + SumSeq(Tail(s))

Row(r) ==
  CASE r.route \in {"output", "utxo"} ->
         LET o == S.outs[r.out] IN
         /\ Chk("C18.output.value", r.status = 200 /\ r.value = o.v, <<r, o.v>>)
         /\ Chk("C18.output.inscriptions", r.ins = OutIns(r.out), <<r.ins, OutIns(r.out)>>)
         /\ Chk("C18.output.runes", PairSet(r.runes) = OutRunes(r.out) /\ Len(r.runes) = Cardinality(OutRunes(r.out)), <<r.runes, OutRunes(r.out)>>)
         /\ Chk("C18.output.ranges", "r" \in DOMAIN o => r.ranges = o.r, <<r.ranges>>)
         /\ (r.route = "output" => Chk("C18.output.spent", r.spent = FALSE /\ r.indexed = TRUE, r))
    [] r.route \in {"inscription", "rinscription"} ->
         LET i == I(r.l)
             holder == i.sp[1]
         IN /\ Chk("C18.inscription.identity", r.status = 200 /\ r.id = r.l /\ r.num = i.num /\ r.h = i.h /\ r.feeq = i.feeq /\ r.feer = i.feer, <<r, i>>)
            /\ Chk("C18.inscription.location", r.sat = i.sat /\ r.sp = i.sp, <<r.sat, r.sp, i.sat, i.sp>>)
            /\ Chk("C18.inscription.value",
                   IF holder \in {"lost", "unbound"} THEN r.value = 0 - 1 ELSE r.value = S.outs[holder].v, <<r.value, holder>>)
            \* /inscription reports the stored charms plus the derived `lost` charm; /r/inscription the stored charms
            /\ Chk("C18.inscription.charms",
                   ToSet(r.charms) = ToSet(IF r.route = "rinscription" THEN i.charms ELSE i.effCharms), <<r.route, r.charms, i.charms, i.effCharms>>)
            /\ (r.route = "inscription" =>
                  /\ Chk("C18.inscription.parents", r.parents = i.parents, <<r.parents, i.parents>>)
                  /\ Chk("C18.inscription.children", r.childCount = Len(i.children)
                                                     /\ r.children = SubSeq(i.children, 1, Min2(4, Len(i.children))), <<r.childCount, r.children>>))
            /\ (r.route = "rinscription" => Chk("C18.inscription.output", r.output = holder \/ holder \in {"lost", "unbound"}, <<r.output, holder>>))
    [] r.route = "children" ->
         /\ Chk("C18.children", r.status = 200 /\ r.ids = PageOf(I(r.l).children, r.page) /\ r.more = MoreAfter(I(r.l).children, r.page), <<r.l, r.page, Len(r.ids), Len(I(r.l).children)>>)
    [] r.route = "parents" ->
         /\ Chk("C18.parents", r.status = 200 /\ r.ids = PageOf(I(r.l).parents, r.page) /\ r.more = MoreAfter(I(r.l).parents, r.page), <<r.l, r.page, r.ids>>)
    [] r.route = "childrenInfo" ->
         LET want == PageOf(I(r.l).children, 0) IN
         Chk("C18.childrenInfo", r.status = 200 /\ Len(r.items) = Len(want) /\ r.more = MoreAfter(I(r.l).children, 0)
                                 /\ \A k \in 1..Len(want) : r.items[k][1] = want[k] /\ r.items[k][2] = I(want[k]).num /\ r.items[k][3] = I(want[k]).sp,
             <<r.l, Len(r.items)>>)
    [] r.route = "sat" ->
         Chk("C18.sat", r.status = 200 /\ r.ids = PageOf(OnSat(r.sat), r.page) /\ r.more = MoreAfter(OnSat(r.sat), r.page) /\ r.rpage = r.page,
             <<r.sat, r.page, Len(r.ids), Len(OnSat(r.sat))>>)
    [] r.route = "satAt" ->
         LET all == OnSat(r.sat)
             n == Len(all)
             want == IF r.at >= 0 THEN (IF r.at < n THEN all[r.at + 1] ELSE "")
                     ELSE (IF 0 - r.at <= n THEN all[n + r.at + 1] ELSE "")
         IN Chk("C18.satAt", r.status = 200 /\ r.id = want, <<r.sat, r.at, r.id, want>>)
    [] r.route = "satPage" ->
         Chk("C18.satPage", r.status = 200 /\ r.ids = OnSat(r.sat) /\ (OnSat(r.sat) # <<>> => r.sp = I(OnSat(r.sat)[1]).sp), <<r.sat, r.ids, r.sp>>)
    [] r.route = "block" ->
         Chk("C18.block", r.status = 200 /\ r.ids = PageOf(InBlock(r.h), r.page) /\ r.more = MoreAfter(InBlock(r.h), r.page) /\ r.rpage = r.page,
             <<r.h, r.page, Len(r.ids), Len(InBlock(r.h))>>)
    [] r.route = "rune" ->
         LET k == CHOOSE j \in 1..Len(S.runes) : S.runes[j].name = r.name
             e == S.runes[k]
         IN Chk("C18.rune", r.status = 200 /\ r.id = e.id /\ r.mints = e.mints /\ r.burned = e.burned /\ r.premine = e.premine
                            /\ r.num = e.num /\ r.block = e.block /\ r.etx = e.etx, <<r, e>>)
    [] r.route = "runes" ->
         Chk("C18.runes", r.status = 200 /\ ToSet(r.names) = {S.runes[k].name : k \in 1..Len(S.runes)} /\ Len(r.names) = Len(S.runes), r.names)
    [] r.route = "address" ->
         LET outs == IF r.script \in DOMAIN S.addr THEN S.addr[r.script] ELSE <<>> IN
         /\ Chk("C18.address.outputs", r.status = 200 /\ r.outs = outs, <<r.outs, outs>>)
         /\ Chk("C18.address.inscriptions", ToSet(r.ins) = UNION {ToSet(OutIns(outs[k])) : k \in 1..Len(outs)}, r.ins)
         /\ Chk("C18.address.balance", r.satBalance = SumSeq([k \in 1..Len(outs) |-> S.outs[outs[k]].v]), r.satBalance)
    [] OTHER -> TRUE

Init == l = 1 /\ S = <<>>
Next == /\ l <= Len(Rec)
        /\ LET r == Rec[l] IN
           IF "e" \in DOMAIN r /\ r.e = "State" THEN S' = r
           ELSE /\ (("f" \in DOMAIN r /\ r.f = "json") => Row(r))
                /\ UNCHANGED S
        /\ l' = l + 1
Spec == Init /\ [][Next]_<<l, S>>
Accepted ==
  /\ PrintT(<<"MATCHED", TLCGet("stats").diameter - 1, "OF", Len(Rec)>>)
  /\ TLCGet("stats").diameter - 1 = Len(Rec)
=============================================================================
