----------------------------- MODULE OrdNumbers -----------------------------
(* Exact-arithmetic definitions behind the pure-function properties, written
   from the documents (BIP, runes specification), not from the code:
     C26  LEB128 varints            C29/C30  sat numbering and notations
     C32  rune names / commitments  C33      rune-name unlock schedule
     C34  decimal rune amounts
   Numbers are BigNat limb sequences unless they are small.                   *)
EXTENDS BigNat, Integers, FiniteSets

Min2(a, b) == IF a <= b THEN a ELSE b

\* ---------------------------------------------------------------- C26 varints
\* index (1-based) of the first byte without the continuation bit, 0 if none
RECURSIVE FirstTerm(_, _)
FirstTerm(bs, i) == IF i > Len(bs) THEN 0 ELSE IF bs[i] < 128 THEN i ELSE FirstTerm(bs, i + 1)
\* sum of the 7-bit groups 1..t:  sum (b_i mod 128) * 128^(i-1)
RECURSIVE GroupsOf(_)
GroupsOf(s) == IF s = <<>> THEN <<>> ELSE Add(FromNat(Head(s) % 128), MulS(GroupsOf(Tail(s)), 128))
VarintValue(bytes, upto) == GroupsOf(SubSeq(bytes, 1, upto))
\* the documented outcome classes
VarintOk(bs) == LET t == FirstTerm(bs, 1) IN t # 0 /\ t <= 19 /\ (t = 19 => bs[19] % 128 <= 3)
               /\ (Len(bs) >= 19 /\ t = 0 => FALSE)
VarintErrOk(bs, kind) ==
  LET t == FirstTerm(bs, 1) IN
  CASE kind = "overflow" -> Len(bs) >= 19 /\ (t = 0 \/ t >= 19) /\ bs[19] % 128 > 3
    [] kind = "overlong" -> Len(bs) >= 20 /\ (t = 0 \/ t >= 20)
    [] kind = "unterminated" -> t = 0
    [] OTHER -> FALSE

\* ---------------------------------------------------------------- C29 sat numbering
HALVING == 210000
DIFFCHANGE == 2016
CYCLE_EPOCHS == 6
COIN == <<0, 0, 1>>                        \* 10^8
FirstSubsidy == <<0, 0, 50>>               \* 50 * 10^8
RECURSIVE SubsidyE(_)
SubsidyE(e) == IF e = 0 THEN FirstSubsidy ELSE IF e >= 33 THEN <<>> ELSE Halve(SubsidyE(e - 1))
Subsidy(h) == SubsidyE(h \div HALVING)
RECURSIVE EpochStart(_)
EpochStart(e) == IF e = 0 THEN <<>>
                 ELSE Add(EpochStart(e - 1), MulS(MulS(SubsidyE(e - 1), 21), 10000))
\* first sat of the block at height h = sum of all earlier subsidies
StartingSat(h) == LET e == Min2(h \div HALVING, 33) IN
                  IF h \div HALVING >= 33 THEN EpochStart(33)
                  ELSE Add(EpochStart(e), Mul(SubsidyE(e), FromNat(h % HALVING)))
Supply == EpochStart(33)
LastSubsidyHeight == 33 * HALVING - 1

RarityOf(hour, minute, second, thirdZero) ==
  IF ~thirdZero THEN "common"
  ELSE IF hour = 0 /\ minute = 0 /\ second = 0 THEN "mythic"
  ELSE IF minute = 0 /\ second = 0 THEN "legendary"
  ELSE IF minute = 0 THEN "epic"
  ELSE IF second = 0 THEN "rare"
  ELSE "uncommon"

Palindrome(d) == \A i \in 1..Len(d) : d[i] = d[Len(d) + 1 - i]

\* base-26 name value: letters are 1..26 ("a" = 1)
RECURSIVE Horner26(_, _)
Horner26(ls, acc) == IF ls = <<>> THEN acc ELSE Horner26(Tail(ls), Add(MulS(acc, 26), FromNat(Head(ls))))

\* closed-form rarity counts over the subsidy-bearing heights [0, N)
NHeights == 33 * HALVING
CountMultiples(n, k) == (n - 1) \div k + 1
RaritySupply(r) ==
  LET cyc == CountMultiples(NHeights, CYCLE_EPOCHS * HALVING)
      halv == CountMultiples(NHeights, HALVING)
      per == CountMultiples(NHeights, DIFFCHANGE)
  IN CASE r = "mythic" -> FromNat(1)
       [] r = "legendary" -> FromNat(cyc - 1)
       [] r = "epic" -> FromNat(halv - cyc)
       [] r = "rare" -> FromNat(per - cyc)
       [] r = "uncommon" -> FromNat(NHeights - per - (halv - cyc))
       [] r = "common" -> Sub(Supply, FromNat(NHeights))

\* ---------------------------------------------------------------- C32 rune names
\* modified base-26: "A" = 0, ..., "Z" = 25, "AA" = 26; letters here are 0..25
RECURSIVE RuneValue(_, _, _)
RuneValue(ls, i, acc) == IF i > Len(ls) THEN acc
                         ELSE LET a1 == IF i > 1 THEN Add(acc, <<1>>) ELSE acc
                              IN RuneValue(ls, i + 1, Add(MulS(a1, 26), FromNat(ls[i])))
RuneOfName(ls) == RuneValue(ls, 1, <<>>)
\* the first name with 27 letters: 26 + 26^2 + ... + 26^26
RECURSIVE SumPow26(_)
SumPow26(k) == IF k = 0 THEN <<>> ELSE Add(PowS(26, k), SumPow26(k - 1))
Reserved == SumPow26(26)
\* little-endian bytes without trailing zeros
RECURSIVE LeBytes(_)
LeBytes(n) == IF n = <<>> THEN <<>> ELSE LET d == DivS(n, 256) IN <<d.r>> \o LeBytes(d.q)

\* ---------------------------------------------------------------- C33 unlock schedule
\* Step(k): the first name with k+1 letters = 26 + ... + 26^k ; Step(0) = 0
Step(k) == SumPow26(k)
UNLOCK_INTERVAL == HALVING \div 12
FirstRuneHeight(net) == CASE net = "mainnet" -> 4 * HALVING [] net = "testnet" -> 12 * HALVING [] OTHER -> 0

\* ---------------------------------------------------------------- C34 decimals
\* digits of amount printed with divisibility d: whole part digits, fraction digits (no trailing zeros)
PrintedAmount(amount, d) ==
  LET p == PowS(10, d)
      digs == ToDigits(amount)
      n == Len(digs)
      whole == IF n > d THEN SubSeq(digs, 1, n - d) ELSE <<0>>
      fracRaw == IF n >= d THEN SubSeq(digs, n - d + 1, n) ELSE [i \in 1..(d - n) |-> 0] \o digs
  IN [whole |-> whole, frac |-> fracRaw]
RECURSIVE StripTrailingZeros(_)
StripTrailingZeros(d) == IF d # <<>> /\ d[Len(d)] = 0 THEN StripTrailingZeros(SubSeq(d, 1, Len(d) - 1)) ELSE d
=============================================================================
