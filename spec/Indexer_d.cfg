SPECIFICATION Spec
CONSTANTS
  CommitInterval = 5
  SavepointInterval = 2
  MaxSavepoints = 1
  MaxHeight = 12
  MaxForks = 2
  MaxForkDepth = 6
  MaxCrashes = 2
  UseHeaders = TRUE
  Fixed = TRUE
INVARIANTS QuiescentAgrees UnrecoverableFlagged NoPanic SavepointsBounded
PROPERTIES Terminates
CHECK_DEADLOCK FALSE
