------------------------------ MODULE BatchTrace ------------------------------
(* C21 trace validation.  `ordv wallet-batch` writes random batch files (four
   modes, 1-4 inscriptions, postage, 0-2 parents, destinations, metadata,
   delegates, optionally a rune etching with or without premine), runs the real
   `ord wallet batch` (subprocess, mock node, real explorer), mines the commit and
   reveal transactions and records what the command REPORTED next to what the real
   index then holds.

   PROP = "C21":   the clauses of C21.
   PROP = "DRIFT": the reported locations and the reveal transaction's layout equal
                   BatchPlan's (model conformance; never a verdict).          *)
EXTENDS BatchPlan, Integers, TLC, Json, IOUtils

Rec == ndJsonDeserialize(IOEnv.TRACE)
PROP == IOEnv.PROP
VARIABLES l
Chk(name, cond, info) == IF cond THEN TRUE ELSE PrintT(<<"FAIL", name, "line", l, info>>) /\ FALSE

C21(r) ==
  LET info == <<r.mode, "count", r.count, "postages", r.postages, "parents", r.parents, "etch", r.etch, r.premine, r.tag, r.n>> IN
  /\ Chk("C21.noPanic", ~r.panic, <<info, r.err>>)
  /\ r.ok =>
       /\ Chk("C21.mined", r.mined, info)
       /\ Chk("C21.count", Len(r.reported) = r.count /\ Len(r.indexed) = r.count /\ ~r.extra, <<info, Len(r.reported), r.extra>>)
       /\ \A i \in 1..Len(r.reported) :
            LET rep == r.reported[i]
                idx == r.indexed[i]
            IN /\ Chk("C21.id", rep.idOk /\ idx.exists, <<info, i, rep, idx>>)
               /\ Chk("C21.location", rep.sameTx /\ idx.sameTx /\ idx.vout = rep.vout /\ idx.off = rep.off /\ idx.apiSatpoint, <<info, i, rep, idx>>)
               /\ Chk("C21.chosenSat", idx.onSubjectSat, <<info, i, idx>>)
               /\ Chk("C21.destination", rep.destOk /\ rep.destAsAsked, <<info, i, rep, idx>>)
               /\ Chk("C21.childOfParents", idx.parents = r.parents, <<info, i, idx.parents>>)
       /\ Chk("C21.reportedParents", r.reportedParents = r.parents, <<info, r.reportedParents>>)
       /\ \A k \in 1..Len(r.parentsAfter) :
            Chk("C21.parentsReturn", r.parentsAfter[k].owner = "wallet" /\ r.parentsAfter[k].sameTx, <<info, r.parentsAfter[k]>>)
       /\ \A k \in 1..Len(r.commitIns) :
            Chk("C21.commitClean", ~r.commitIns[k].nc /\ r.commitIns[k].wallet, <<info, r.commitIns>>)
       /\ \A k \in 1..Len(r.revealIns) :
            Chk("C21.revealInputs", r.revealIns[k].nc => r.revealIns[k].isParent, <<info, r.revealIns>>)
       /\ (r.etch =>
             /\ Chk("C21.rune", r.rune.reported /\ r.rune.nameOk /\ r.rune.exists /\ r.rune.etchingIsReveal /\ r.rune.premineIdx = r.premine, <<info, r.rune>>)
             /\ Chk("C21.premine",
                    IF r.premine > 0
                    THEN r.rune.hasLocation /\ r.rune.locSameTx /\ r.rune.balAtReported = r.premine /\ r.rune.locOwner = "wallet"
                    ELSE ~r.rune.hasLocation,
                    <<info, r.rune>>))

Batch(r) == [mode |-> r.mode, pv |-> [k \in 1..r.nparents |-> r.revealOuts[k].v],
             post |-> r.postages, premine |-> r.premine > 0, hasEtching |-> r.etch]
Drift(r) ==
  r.ok =>
    LET b == Batch(r)
        outs == RevealOuts(b, 10000)
    IN /\ \A i \in 1..Len(r.reported) :
            Chk("drift.reported", [vout |-> r.reported[i].vout, off |-> r.reported[i].off] = Reported(b, i), <<r.mode, i, r.reported[i], Reported(b, i)>>)
       /\ Chk("drift.revealOutputs", [k \in 1..Len(r.revealOuts) |-> r.revealOuts[k].v] = outs, <<r.mode, r.revealOuts, outs>>)
       /\ Chk("drift.revealInputs", Len(r.revealIns) = CommitInput(b) /\ r.revealIns[CommitInput(b)].isCommit
                                     /\ \A k \in 1..r.nparents : r.revealIns[k].isParent, <<r.mode, r.revealIns>>)
       /\ (r.etch /\ r.premine > 0 => Chk("drift.runeVout", r.rune.locVout = RuneVout(b), <<r.rune.locVout, RuneVout(b)>>))

Init == l = 1
Next == /\ l <= Len(Rec)
        /\ (Rec[l].event = "Batch" =>
              /\ (PROP = "C21" => C21(Rec[l]))
              /\ (PROP = "DRIFT" => Drift(Rec[l])))
        /\ l' = l + 1
Spec == Init /\ [][Next]_l
Accepted ==
  /\ PrintT(<<"MATCHED", TLCGet("stats").diameter - 1, "OF", Len(Rec)>>)
  /\ TLCGet("stats").diameter - 1 = Len(Rec)
=============================================================================
