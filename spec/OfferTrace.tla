----------------------------- MODULE OfferTrace -----------------------------
(* C24 trace validation.  `ordv wallet-offers` presents PSBTs to the real
   `ord wallet offer accept` (a subprocess talking to a mock node and the real
   explorer) and records, per PSBT: its inputs (owner, the inscriptions and
   runes the real index reports for the spent output, how it was signed), the
   inscription and amount named on the command line, whether the wallet's
   balance change equals the named amount, the command's outcome, what reached
   the mempool and whether each pre-existing signature survived.

   PROP = "C24":   a broadcast implies Offer!Advertised; a refusal broadcasts nothing.
   PROP = "DRIFT": the outcome equals Offer!Decide / AfterSign (model conformance). *)
EXTENDS Offer, Integers, TLC, Json, IOUtils

Rec == ndJsonDeserialize(IOEnv.TRACE)
PROP == IOEnv.PROP
VARIABLES l
Chk(name, cond, info) == IF cond THEN TRUE ELSE PrintT(<<"FAIL", name, "line", l, info>>) /\ FALSE

Psbt(r) == [ins |-> [i \in 1..Len(r.ins) |-> [owner |-> r.ins[i].owner, insc |-> r.ins[i].insc, runes |-> r.ins[i].runes, sig |-> r.ins[i].sig]],
            changeEq |-> r.changeEq]
Broadcast(r) == r.ntx > 0
Kept(r) == IF "tx" \in DOMAIN r THEN r.tx.kept ELSE [i \in 1..Len(r.ins) |-> TRUE]

C24(r) ==
  LET info == <<r.ins, "claim", r.claim, "changeEq", r.changeEq, r.change, r.named, "ok", r.ok, r.err, "ntx", r.ntx, r.tag, r.n>> IN
  /\ Chk("C24.noPanic", ~r.panic, info)
  /\ Chk("C24.refusalBroadcastsNothing", ~r.ok => ~Broadcast(r), info)
  /\ Chk("C24.atMostOne", r.ntx <= 1, info)
  /\ Broadcast(r) =>
       /\ Chk("C24.sameTransaction", r.tx.same, info)
       /\ Chk("C24.onlyAdvertised", Advertised(Psbt(r), r.claim, Kept(r)), info)
       /\ Chk("C24.sellerSigned", \A i \in WalletIdx(Psbt(r)) : r.tx.signed[i], info)

\* which inputs the mock node re-signs: it replaces every signature by its own standard one
NodeKeeps(r) == [i \in 1..Len(r.ins) |-> r.ins[i].sig # "odd"]
Drift(r) ==
  LET d == Decide(Psbt(r), r.claim)
      expect == IF d = "sign" THEN AfterSign(Psbt(r), NodeKeeps(r)) ELSE d
  IN Chk("drift.outcome", (expect = "broadcast") = (r.ok /\ Broadcast(r)), <<"model", expect, "impl", r.ok, r.err, r.ins, r.claim, r.changeEq>>)

Init == l = 1
Next == /\ l <= Len(Rec)
        /\ (Rec[l].event = "Offer" =>
              /\ (PROP = "C24" => C24(Rec[l]))
              /\ (PROP = "DRIFT" => Drift(Rec[l])))
        /\ l' = l + 1
Spec == Init /\ [][Next]_l
Accepted ==
  /\ PrintT(<<"MATCHED", TLCGet("stats").diameter - 1, "OF", Len(Rec)>>)
  /\ TLCGet("stats").diameter - 1 = Len(Rec)
=============================================================================
