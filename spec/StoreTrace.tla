------------------------------ MODULE StoreTrace ------------------------------
(* C35 (storage encodings read back what was written; merging pseudo-output entries
   keeps everything) and C28 (properties round-trip in every encoding; decompression
   is bounded by the documented limits), on (written, read) pairs recorded from the
   real encoders/decoders through the guarded wrappers.                           *)
EXTENDS OrdNumbers, Sequences, TLC, Json, IOUtils
Rec == ndJsonDeserialize(IOEnv.TRACE)
PROP == IOEnv.PROP
VARIABLE l
Chk(name, cond, info) == IF cond THEN TRUE ELSE PrintT(<<"FAIL", name, "line", l, info>>) /\ FALSE
\* the packed sat range: 51-bit base, 33-bit length, little-endian, 11 bytes
Packed(a, b) == LET n == Add(a, Mul(Sub(b, a), PowS(2, 51)))
                    bytes == LeBytes(n)
                IN bytes \o [i \in 1..(11 - Len(bytes)) |-> 0]
RECURSIVE SumLens(_)
SumLens(rs) == IF rs = <<>> THEN <<>> ELSE Add(Sub(Head(rs)[2], Head(rs)[1]), SumLens(Tail(rs)))
MaxProps == 4000000
Min2n(a, b) == IF a <= b THEN a ELSE b

C35(r) ==
  CASE r.f = "satrange" -> Chk("C35.satrange", r.back = <<r.a, r.b>> /\ r.bytes = Packed(r.a, r.b), r)
    [] r.f = "utxo" ->
         /\ Chk("C35.utxo", r.read.ranges = r.written.ranges /\ r.read.script = r.written.script /\ r.read.ins = r.written.ins, <<r.written, r.read>>)
         /\ Chk("C35.utxoValue", r.read.value = (IF r.flags.sats THEN SumLens(r.written.ranges) ELSE r.written.value), <<r.read.value>>)
    [] r.f = "merge" ->
         /\ (r.flags.sats => Chk("C35.mergeRanges", r.merged.ranges = r.a.ranges \o r.b.ranges, r))
         /\ (r.flags.inscriptions => Chk("C35.mergeInscriptions", r.merged.ins = r.a.ins \o r.b.ins, r))
    [] r.f \in {"points", "ids", "entry"} -> Chk("C35." \o r.f, r.read = r.written /\ (r.f = "points" => r.spSame), r)
    [] OTHER -> TRUE

C28(r) ==
  CASE r.f = "props" ->
         /\ (~r.empty => Chk("C28.inline", r.inline = r.p, <<r.p, r.inline>>))
         /\ (~r.empty => Chk("C28.packed", r.packed = r.p, <<r.p, r.packed>>))
         /\ \A k \in 1..Len(r.via) : Chk("C28.inscription", r.via[k].back = r.p, <<r.p, r.via[k]>>)
         /\ (r.empty => Chk("C28.empty", r.inlineLen = 0 /\ r.packedLen = 0, r))
    [] r.f = "bomb" ->
         /\ Chk("C28.total", r.st # "panic", r)
         /\ (r.st = "some" => Chk("C28.bounded", r.outLen <= Min2n(30 * r.inLen, MaxProps) /\ r.outLen = r.rawLen, r))
         \* a field within both limits is accepted
         /\ (r.rawLen <= Min2n(30 * r.inLen, MaxProps) => Chk("C28.accepted", r.st = "some", r))
    [] r.f = "ratio" -> Chk("C28.encodedDecodes", r.st = "encoded" => r.same, r)
    [] r.f = "propsRandom" -> Chk("C28.randomTotal", ~r.panic, r)
    [] OTHER -> TRUE

Init == l = 1
Next == /\ l <= Len(Rec)
        /\ (PROP = "C35" => C35(Rec[l]))
        /\ (PROP = "C28" => C28(Rec[l]))
        /\ l' = l + 1
Spec == Init /\ [][Next]_l
Accepted ==
  /\ PrintT(<<"MATCHED", TLCGet("stats").diameter - 1, "OF", Len(Rec)>>)
  /\ TLCGet("stats").diameter - 1 = Len(Rec)
=============================================================================
