---------------------------- MODULE OfferProofs ----------------------------
(* Unbounded soundness of the acceptance gate of Offer.tla: for a PSBT with any
   number of inputs, a decision to sign followed by a broadcast implies the
   advertised trade.  Checked with TLAPS (tlapm).                             *)
EXTENDS Offer, TLAPS

THEOREM GateSound ==
  ASSUME NEW p, NEW claim, NEW kept, NEW S,
         \A k : p.ins[k].insc \in Seq(S),          \* the inscription lists are sequences
         Decide(p, claim) = "sign",
         AfterSign(p, kept) = "broadcast"
  PROVE  Advertised(p, claim, kept)
<1> DEFINE w == WalletIdx(p)
<1> DEFINE i == CHOOSE x \in w : TRUE
<1>1. ~(\E a, b \in w : a # b)
  BY DEF Decide
<1>2. w # {}
  BY <1>1 DEF Decide
<1>3. i \in w
  BY <1>2
<1>4. \A x \in w : x = i
  BY <1>1, <1>3
<1> DEFINE o == p.ins[i]
<1>5. /\ ~o.runes
      /\ ~(Len(o.insc) > 1)
      /\ ~(Len(o.insc) = 0)
      /\ o.insc[1] = claim
      /\ p.changeEq
      /\ o.sig = "none"
      /\ ~(\E j \in 1..Len(p.ins) : j # i /\ p.ins[j].sig = "none")
  BY <1>1, <1>2 DEF Decide
<1>6. \A j \in 1..Len(p.ins) : j # i => kept[j]
  BY DEF AfterSign
<1>7. o.insc = <<claim>>
  <2>1. o.insc \in Seq(S)
    OBVIOUS
  <2>2. Len(o.insc) = 1
    BY <1>5, <2>1
  <2> QED
    BY <1>5, <2>1, <2>2
<1> QED
  BY <1>3, <1>4, <1>5, <1>6, <1>7 DEF Advertised
=============================================================================
