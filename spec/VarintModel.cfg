SPECIFICATION Spec
CONSTANT MaxLen = 4
INVARIANT AllConform
CHECK_DEADLOCK FALSE
