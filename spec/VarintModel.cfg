SPECIFICATION Spec
CONSTANT MaxLen = 4
INVARIANTS Conforms RoundTrip
CHECK_DEADLOCK FALSE
