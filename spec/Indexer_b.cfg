SPECIFICATION Spec
CONSTANTS
  CommitInterval = 4
  SavepointInterval = 5
  MaxSavepoints = 2
  MaxHeight = 14
  MaxForks = 1
  MaxForkDepth = 9
  MaxCrashes = 1
  UseHeaders = FALSE
  Fixed = TRUE
INVARIANTS QuiescentAgrees UnrecoverableFlagged NoPanic SavepointsBounded
PROPERTIES Terminates
CHECK_DEADLOCK FALSE
