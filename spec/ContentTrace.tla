---------------------------- MODULE ContentTrace ----------------------------
(* C19: the content-serving decision table, evaluated on responses recorded from
   the real explorer (in-process server, real HTTP).  A row is
     route    content | sat_at_pos | sat_at_neg | undelegated | preview | json | home | notfound | bad
     cls      the requested inscription: [ct, enc, body, delegate, hiddenCfg] (+ unknown)
     eff      the inscription whose content the route is to serve (itself, or its delegate):
              [label, ct: valid|invalid|absent, ctype, enc: none|br|other|invalid, body, hiddenCfg]
     accepts  the encodings listed in Accept-Encoding;  cfg: [origin, decompress]
   and the observation: status, ctype, cenc, cache, csp (token lists), src (whose body came back:
   a label, "br:<label>" for the brotli bytes of that body, "placeholder"/"page"/"other").      *)
EXTENDS Naturals, Sequences, FiniteSets, TLC, Json, IOUtils
Rec == ndJsonDeserialize(IOEnv.TRACE)
VARIABLE l
Chk(name, cond, info) == IF cond THEN TRUE ELSE PrintT(<<"FAIL", name, "line", l, info>>) /\ FALSE
ChkKF(name, cond, kf, kfname, info) ==
  IF cond THEN TRUE
  ELSE IF kf THEN PrintT(<<"KNOWN", kfname, "line", l, info>>)
  ELSE PrintT(<<"FAIL", name, "line", l, info>>) /\ FALSE
ToSet(s) == {s[i] : i \in 1..Len(s)}
Origin == "https://ord.example"
Recursive(o) == {o \o "/content/", o \o "/blockheight", o \o "/blockhash", o \o "/blockhash/", o \o "/blocktime", o \o "/r/"}
Inline == {"default-src", "'unsafe-eval'", "'unsafe-inline'", "data:", "blob:"}
\* what inscription content may load
ContentCspOk(r) ==
  IF r.cfg.origin
  THEN Len(r.csp) = 1 /\ ToSet(r.csp[1]) \subseteq Inline \cup Recursive(Origin) /\ r.csp[1][1] = "default-src"
  ELSE /\ Len(r.csp) = 2
       /\ \E a, b \in 1..2 : a # b /\ ToSet(r.csp[a]) \subseteq Inline \cup {"'self'"}
                                   /\ ToSet(r.csp[b]) \subseteq Inline \cup Recursive("*:*")
       /\ \A k \in 1..2 : r.csp[k][1] = "default-src"
Immutable(r) == r.cache = "public, max-age=1209600, immutable"
ContentLike == {"content", "sat_at_pos", "sat_at_neg"}
Placeholder(r) == r.status = 200 /\ r.src \in {"placeholder", "page", "other"}

Served(r, e) ==
  \* e is the inscription whose content is to be served
  IF ~e.body THEN Chk("C19.nobody", r.status = 404, r)
  ELSE /\ CASE e.enc = "none" -> Chk("C19.plain", r.status = 200 /\ r.src = e.label /\ r.cenc = "", r)
            [] e.enc = "br" -> IF "br" \in ToSet(r.accepts)
                               THEN Chk("C19.passthrough", r.status = 200 /\ r.src = "br:" \o e.label /\ r.cenc = "br", r)
                               ELSE IF r.cfg.decompress
                               THEN Chk("C19.decompress", r.status = 200 /\ r.src = e.label /\ r.cenc = "", r)
                               ELSE Chk("C19.refuse", r.status = 406, r)
            [] e.enc = "other" -> IF "gzip" \in ToSet(r.accepts)
                                  THEN Chk("C19.passthroughOther", r.status = 200 /\ r.src = e.label /\ r.cenc = "gzip", r)
                                  ELSE Chk("C19.refuseOther", r.status = 406, r)
            [] OTHER -> Chk("C19.invalidEnc", r.status \in {200, 406}, r)
       /\ (r.status = 200 =>
             /\ Chk("C19.ctype", r.ctype = (IF e.ct = "valid" THEN e.ctype ELSE "application/octet-stream"), <<r.ctype, e>>)
             /\ Chk("C19.contentCsp", ContentCspOk(r), r.csp)
             /\ Chk("C19.cache", IF r.route = "sat_at_neg" THEN ~Immutable(r) ELSE Immutable(r), <<r.route, r.cache>>))

Init == l = 1
Next ==
  /\ l <= Len(Rec)
  /\ LET r == Rec[l] IN
     /\ Chk("C19.cspPresent", r.csp # <<>>, <<r.route, r.label, r.status>>)
     \* the content of a hidden inscription is never served, by any route, directly or through a delegate
     /\ ChkKF("C19.hidden", r.src \notin {"H", "br:H"},
              r.cls.delegate = "hidden" /\ r.route \in ContentLike, "C19-hidden-delegate", <<r.route, r.label, r.src>>)
     /\ (r.route \in ContentLike \cup {"undelegated"} =>
           IF "unknown" \in DOMAIN r.cls THEN Chk("C19.unknown", r.status = 404, r)
           ELSE IF r.cls.hiddenCfg THEN Chk("C19.hiddenDirect", Placeholder(r), r)
           ELSE IF r.route = "undelegated" THEN Served(r, r.own)
           ELSE CASE r.cls.delegate = "none" -> Served(r, r.own)
                  [] r.cls.delegate = "plain" -> Served(r, r.eff)
                  [] r.cls.delegate = "missing" -> Chk("C19.missingDelegate", r.status = 404, r)
                  [] r.cls.delegate = "delegating" -> Served(r, r.eff)
                  [] r.cls.delegate = "hidden" -> TRUE        \* only C19.hidden applies
                  [] OTHER -> TRUE)
     /\ (r.route = "sat_at_neg" => Chk("C19.negNotImmutable", ~Immutable(r), r.cache))
  /\ l' = l + 1
Spec == Init /\ [][Next]_l
Accepted ==
  /\ PrintT(<<"MATCHED", TLCGet("stats").diameter - 1, "OF", Len(Rec)>>)
  /\ TLCGet("stats").diameter - 1 = Len(Rec)
=============================================================================
