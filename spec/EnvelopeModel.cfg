SPECIFICATION Spec
CONSTANT MaxLen = 6
INVARIANTS PayloadsArePushes PushnumIffN NeedsPrefix FindsWellFormed AtMost
CHECK_DEADLOCK FALSE
