---------------------------- MODULE InscrFlotsam ----------------------------
(* C03 / C06, level A: the inscription updater's per-transaction algorithm
   (src/index/updater/inscription_updater.rs index_inscriptions: inputs in order,
   old inscriptions then new envelopes, `inscribed_offsets`, pointer handling,
   flotsam sorted by offset and dealt to the outputs) against the sat-level
   meaning LedgerTrace uses ("an inscription is on a sat; it is a reinscription
   iff that sat already carries an inscription; it lands where its sat lands").

   One non-coinbase transaction:
     ins   Seq([v, old])   v = value, old = Seq of offsets (< v) of inscriptions already on the spent output
     envs  Seq([input, ptr]) new envelopes in transaction order (input 1-based, non-decreasing), ptr = NN or a value
     outs  Seq(value)
   TLC enumerates every such transaction within the constants.                *)
EXTENDS Integers, Sequences, FiniteSets, TLC

CONSTANTS MaxIn, MaxOut, MaxEnv, MaxVal
NN == 0 - 1

RECURSIVE Sum(_)
Sum(s) == IF s = <<>> THEN 0 ELSE Head(s) + Sum(Tail(s))
Start(tx, i) == Sum([j \in 1..(i - 1) |-> tx.ins[j].v])
TotalIn(tx) == Sum([j \in 1..Len(tx.ins) |-> tx.ins[j].v])
TotalOut(tx) == Sum(tx.outs)

\* ---- where a transaction-level offset lands: [vout (0-based), off], vout = -1 for the fee
RECURSIVE Land(_, _, _)
Land(outs, o, k) == IF k > Len(outs) THEN [vout |-> NN, off |-> o]
                    ELSE IF o < outs[k] THEN [vout |-> k - 1, off |-> o]
                    ELSE Land(outs, o - outs[k], k + 1)

\* ---- the implementation, step for step: the state is the set of offsets seen so far
\* (inscribed_offsets) and the list of results for the new envelopes
OldOffsets(tx, i) == {Start(tx, i) + tx.ins[i].old[k] : k \in 1..Len(tx.ins[i].old)}
RECURSIVE EnvsOf(_, _, _, _, _)
\* process the envelopes of input i (those with .input = i, from position e on)
EnvsOf(tx, i, e, seen, res) ==
  IF e > Len(tx.envs) \/ tx.envs[e].input # i THEN [e |-> e, seen |-> seen, res |-> res]
  ELSE LET start == Start(tx, i)
           p == tx.envs[e].ptr
           off == IF p # NN /\ p < TotalOut(tx) THEN p ELSE start
           r == [off |-> off, reinscription |-> off \in seen, unbound |-> tx.ins[i].v = 0,
                 cursedAsReinscription |-> start \in seen]
       IN EnvsOf(tx, i, e + 1, seen \cup {off}, Append(res, r))
RECURSIVE Inputs(_, _, _, _, _)
Inputs(tx, i, e, seen, res) ==
  IF i > Len(tx.ins) THEN res
  ELSE LET s1 == seen \cup OldOffsets(tx, i)
           r == EnvsOf(tx, i, e, s1, res)
       IN Inputs(tx, i + 1, r.e, r.seen, r.res)
Impl(tx) == Inputs(tx, 1, 1, {}, <<>>)

\* ---- the sat-level meaning
AllOld(tx) == UNION {OldOffsets(tx, i) : i \in 1..Len(tx.ins)}
RefReinscription(tx, res, k) ==
  \/ res[k].off \in AllOld(tx)
  \/ \E j \in 1..(k - 1) : ~res[j].unbound /\ res[j].off = res[k].off
\* the recorded class C06-forward-pointer: the only earlier inscriptions on the sat sit in a later input
Forward(tx, res, k) ==
  LET e == tx.envs[k] IN
  /\ e.ptr # NN /\ e.ptr < TotalOut(tx)
  /\ ~\E j \in 1..(k - 1) : ~res[j].unbound /\ res[j].off = res[k].off
  /\ res[k].off \notin UNION {OldOffsets(tx, i) : i \in 1..e.input}

\* ---- every transaction within the bounds
Olds(v) == {<<>>} \cup {<<a>> : a \in 0..(v - 1)} \cup {<<a, b>> : a \in 0..(v - 1), b \in 0..(v - 1)}
InputsSet == UNION {[v : {v}, old : Olds(v)] : v \in 0..MaxVal}
Ptrs == {NN} \cup 0..(2 * MaxVal + 1)
Txs == {t \in UNION {[ins : [1..ni -> InputsSet], envs : [1..ne -> [input : 1..ni, ptr : Ptrs]], outs : [1..no -> 0..MaxVal]]
                      : ni \in 1..MaxIn, ne \in 1..MaxEnv, no \in 1..MaxOut} :
          /\ TotalOut(t) <= TotalIn(t)
          /\ \A e \in 1..(Len(t.envs) - 1) : t.envs[e].input <= t.envs[e + 1].input}

VARIABLE tx
Init == tx \in Txs
Next == UNCHANGED tx
Spec == Init /\ [][Next]_tx

\* every reinscription is flagged, except in the recorded forward-pointer class
ReinscriptionsFlagged ==
  LET res == Impl(tx) IN
  \A k \in 1..Len(res) : (~res[k].unbound /\ RefReinscription(tx, res, k)) => (res[k].reinscription \/ Forward(tx, res, k))
\* nothing else is flagged, unless an unbound envelope of this transaction sits at the same offset
NoSpuriousFlag ==
  LET res == Impl(tx) IN
  \A k \in 1..Len(res) : (~res[k].unbound /\ res[k].reinscription) =>
     (RefReinscription(tx, res, k) \/ \E j \in 1..(k - 1) : res[j].unbound /\ res[j].off = res[k].off)
\* a clean first envelope (first input, no pointer) on an uninscribed sat is not flagged
CleanFirst ==
  LET res == Impl(tx) IN
  (tx.envs[1].input = 1 /\ tx.envs[1].ptr = NN /\ ~res[1].unbound /\ 0 \notin AllOld(tx))
     => ~res[1].reinscription /\ ~res[1].cursedAsReinscription
\* the new inscription lands where its sat lands: sorting by offset and dealing to outputs is the FIFO rule
LandsWithSat ==
  LET res == Impl(tx) IN
  \A k \in 1..Len(res) : LET l == Land(tx.outs, res[k].off, 1) IN
     /\ (l.vout # NN => l.off < tx.outs[l.vout + 1])
     /\ (l.vout = NN <=> res[k].off >= TotalOut(tx))
\* the forward class is real: some transaction exhibits it (so the exemption is not vacuous)
NoForward == LET res == Impl(tx) IN \A k \in 1..Len(res) : ~(RefReinscription(tx, res, k) /\ ~res[k].reinscription /\ ~res[k].unbound)
=============================================================================
