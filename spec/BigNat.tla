------------------------------- MODULE BigNat -------------------------------
(* Natural numbers of arbitrary size as little-endian sequences of base-10^4
   limbs (TLC integers are 32-bit; sat numbers need 51 bits, rune amounts 128).
   <<>> is zero; no leading (most significant) zero limbs in normal form.      *)
EXTENDS Naturals, Sequences

B == 10000

RECURSIVE Norm(_)
Norm(a) == IF a # <<>> /\ a[Len(a)] = 0 THEN Norm(SubSeq(a, 1, Len(a) - 1)) ELSE a
Limb(a, i) == IF i <= Len(a) THEN a[i] ELSE 0
MaxN(x, y) == IF x > y THEN x ELSE y

RECURSIVE AddC(_, _, _, _)
AddC(a, b, i, c) == IF i > MaxN(Len(a), Len(b)) THEN (IF c = 0 THEN <<>> ELSE <<c>>)
  ELSE LET s == Limb(a, i) + Limb(b, i) + c IN <<s % B>> \o AddC(a, b, i + 1, s \div B)
Add(a, b) == Norm(AddC(a, b, 1, 0))

\* a - b for a >= b
RECURSIVE SubC(_, _, _, _)
SubC(a, b, i, c) == IF i > Len(a) THEN <<>>
  ELSE LET d == Limb(a, i) - Limb(b, i) - c IN
       IF d >= 0 THEN <<d>> \o SubC(a, b, i + 1, 0) ELSE <<d + B>> \o SubC(a, b, i + 1, 1)
Sub(a, b) == Norm(SubC(a, b, 1, 0))

\* multiply by a small k (k * 9999 + carry must stay below 2^31: k <= 200000)
RECURSIVE MulSC(_, _, _, _)
MulSC(a, k, i, c) == IF i > Len(a) THEN (IF c = 0 THEN <<>> ELSE IF c < B THEN <<c>> ELSE <<c % B>> \o MulSC(a, k, i, c \div B))
  ELSE LET s == a[i] * k + c IN <<s % B>> \o MulSC(a, k, i + 1, s \div B)
MulS(a, k) == Norm(MulSC(a, k, 1, 0))

RECURSIVE Shift(_, _)
Shift(a, n) == IF n = 0 \/ a = <<>> THEN a ELSE Shift(<<0>> \o a, n - 1)
RECURSIVE MulR(_, _, _)
MulR(a, b, i) == IF i > Len(b) THEN <<>> ELSE Add(Shift(MulS(a, b[i]), i - 1), MulR(a, b, i + 1))
Mul(a, b) == MulR(a, b, 1)

RECURSIVE CmpR(_, _, _)
CmpR(a, b, i) == IF i = 0 THEN 0 ELSE IF a[i] < b[i] THEN 0 - 1 ELSE IF a[i] > b[i] THEN 1 ELSE CmpR(a, b, i - 1)
\* -1, 0, 1 (as 0-1, 0, 1); arguments in normal form
Cmp(a, b) == IF Len(a) < Len(b) THEN 0 - 1 ELSE IF Len(a) > Len(b) THEN 1 ELSE CmpR(a, b, Len(a))
Lt(a, b) == Cmp(a, b) < 0
Le(a, b) == Cmp(a, b) <= 0

RECURSIVE FromNat(_)
FromNat(n) == IF n = 0 THEN <<>> ELSE <<n % B>> \o FromNat(n \div B)
\* value of a short BigNat as a TLC integer (caller guarantees it fits)
RECURSIVE ToNat(_)
ToNat(a) == IF a = <<>> THEN 0 ELSE a[1] + B * ToNat(Tail(a))

\* division by a small k (k <= 200000): [q |-> quotient, r |-> remainder]
RECURSIVE DivSR(_, _, _, _)
DivSR(a, k, i, r) == IF i = 0 THEN [q |-> <<>>, r |-> r]
  ELSE LET cur == r * B + a[i]
           rest == DivSR(a, k, i - 1, cur % k)
       IN [q |-> rest.q \o <<cur \div k>>, r |-> rest.r]
DivS(a, k) == LET d == DivSR(a, k, Len(a), 0) IN [q |-> Norm(d.q), r |-> d.r]
Halve(a) == DivS(a, 2).q

RECURSIVE PowS(_, _)
PowS(k, n) == IF n = 0 THEN <<1>> ELSE MulS(PowS(k, n - 1), k)

\* decimal digits, most significant first, of a BigNat (<<0>> for zero) and back
RECURSIVE LimbDigits(_, _)
LimbDigits(x, n) == IF n = 0 THEN <<>> ELSE LimbDigits(x \div 10, n - 1) \o <<x % 10>>
RECURSIVE StripZeros(_)
StripZeros(d) == IF Len(d) > 1 /\ d[1] = 0 THEN StripZeros(Tail(d)) ELSE d
RECURSIVE DigitsR(_, _)
DigitsR(a, i) == IF i = 0 THEN <<>> ELSE LimbDigits(a[i], 4) \o DigitsR(a, i - 1)
ToDigits(a) == IF a = <<>> THEN <<0>> ELSE StripZeros(DigitsR(a, Len(a)))
RECURSIVE FromDigitsR(_, _)
FromDigitsR(d, acc) == IF d = <<>> THEN acc ELSE FromDigitsR(Tail(d), Add(MulS(acc, 10), FromNat(Head(d))))
FromDigits(d) == FromDigitsR(d, <<>>)

TwoPow32 == PowS(2, 32)
TwoPow64 == PowS(2, 64)
TwoPow128 == PowS(2, 128)
=============================================================================
