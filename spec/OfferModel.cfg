SPECIFICATION Spec
CONSTANTS MaxIns = 2
INVARIANTS OnlyAdvertised
CHECK_DEADLOCK FALSE
