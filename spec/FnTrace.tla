------------------------------- MODULE FnTrace -------------------------------
(* Trace validation for the pure-function properties (C26, C29-C34): every line
   is one (input, output) pair recorded by `ordv sample` from the real function;
   the expected relation is computed here from the definitions in OrdNumbers
   with exact (BigNat) arithmetic.  PROP selects the property.                *)
EXTENDS OrdNumbers, Sequences, TLC, Json, IOUtils

Rec == ndJsonDeserialize(IOEnv.TRACE)
PROP == IOEnv.PROP
VARIABLES l, prev
vars == <<l, prev>>

Chk(name, cond, info) == IF cond THEN TRUE ELSE PrintT(<<"FAIL", name, "line", l, info>>) /\ FALSE
ChkKF(name, cond, kf, kfname, info) ==
  IF cond THEN TRUE
  ELSE IF kf THEN PrintT(<<"KNOWN", kfname, "line", l, info>>)
  ELSE PrintT(<<"FAIL", name, "line", l, info>>) /\ FALSE
SeqToSet(s) == {s[i] : i \in 1..Len(s)}

\* ---------------------------------------------------------------- C26
VarintEnc(r) ==
  LET term == FirstTerm(r.bytes, 1) IN
  Chk("C26.encode", r.bytes # <<>> /\ term = Len(r.bytes) /\ term <= 19 /\ VarintValue(r.bytes, term) = r.n
                    /\ (Len(r.bytes) > 1 => r.bytes[Len(r.bytes)] # 0), r)
VarintDec(r) ==
  LET term == FirstTerm(r.bytes, 1)
      fits == term # 0 /\ term <= 19 /\ (term = 19 => r.bytes[19] % 128 <= 3)
  IN /\ Chk("C26.total", r.res # "panic", r)
     /\ IF fits THEN Chk("C26.value", r.res = "ok" /\ r.len = term /\ r.n = VarintValue(r.bytes, term), r)
        ELSE Chk("C26.error", r.res # "ok" /\ VarintErrOk(r.bytes, r.res), r)

\* ---------------------------------------------------------------- C29 / C30
HeightRec(r) ==
  Chk("C29.height", r.start = StartingSat(r.h) /\ r.sub = Subsidy(r.h), <<r, StartingSat(r.h), Subsidy(r.h)>>)

RarityCharm(rar) == IF rar = "common" THEN {} ELSE {rar}
SatRec(r) ==
  LET first == StartingSat(r.h)
      sub == Subsidy(r.h)
      digits == ToDigits(r.s)
      rar == RarityOf(r.deg[1], r.deg[2], r.deg[3], r.third = <<>>)
      wantCharms == RarityCharm(rar)
                    \cup (IF Limb(r.s, 1) = 0 /\ Limb(r.s, 2) = 0 THEN {"coin"} ELSE {})
                    \cup (IF Le(MulS(FirstSubsidy, 9), r.s) /\ Lt(r.s, MulS(FirstSubsidy, 10)) THEN {"nineball"} ELSE {})
                    \cup (IF Palindrome(digits) THEN {"palindrome"} ELSE {})
  IN /\ Chk("C29.bijection", Le(first, r.s) /\ Lt(r.s, Add(first, sub)) /\ r.third = Sub(r.s, first), <<r.s, r.h, first, sub>>)
     /\ Chk("C29.attributes",
            /\ r.epoch = r.h \div HALVING /\ r.cycle = r.epoch \div CYCLE_EPOCHS /\ r.period = r.h \div DIFFCHANGE
            /\ r.deg = <<r.h \div (CYCLE_EPOCHS * HALVING), r.h % HALVING, r.h % DIFFCHANGE>> /\ r.dthird = r.third
            /\ r.dech = r.h /\ r.decoff = r.third,
            r)
     /\ Chk("C29.rarity", r.rarity = rar /\ r.common = (rar = "common"), <<r.rarity, rar, r.common>>)
     /\ Chk("C29.charms", SeqToSet(r.charms) = wantCharms, <<r.charms, wantCharms>>)
     /\ Chk("C29.name", Horner26(r.name, <<>>) = Sub(Supply, r.s), r.name)

SatBack(r) ==
  /\ Chk("C30.integer", r.back.int.st = "ok" /\ r.back.int.n = r.s, r.back.int)
  /\ Chk("C30.decimal", r.back.dec.st = "ok" /\ r.back.dec.n = r.s, r.back.dec)
  /\ Chk("C30.degree", r.back.deg.st = "ok" /\ r.back.deg.n = r.s, r.back.deg)
  /\ Chk("C30.name", r.back.name.st = "ok" /\ r.back.name.n = r.s, r.back.name)
  /\ Chk("C30.percentile", r.back.pct.st = "ok" /\ r.back.pct.n = r.s, <<r.s, r.back.pct>>)

RaritySupplyRec(r) == Chk("C29.raritySupply", r.supply = RaritySupply(r.rarity), <<r, RaritySupply(r.rarity)>>)

\* ---------------------------------------------------------------- C32
RECURSIVE Letters(_)
Letters(tokens) == IF tokens = <<>> THEN <<>>
                   ELSE IF Head(tokens) = 100 THEN Letters(Tail(tokens)) ELSE <<Head(tokens)>> \o Letters(Tail(tokens))
\* 0-based letter indices followed by a spacer
RECURSIVE SpacerBits(_, _)
SpacerBits(tokens, k) == IF tokens = <<>> THEN {}
                         ELSE IF Head(tokens) = 100 THEN {k - 1} \cup SpacerBits(Tail(tokens), k)
                         ELSE SpacerBits(Tail(tokens), k + 1)
RuneRec(r) ==
  IF "printPanic" \in DOMAIN r THEN Chk("C32.printTotal", FALSE, r.n) ELSE
  LET n == Len(r.name) IN
  /\ Chk("C32.name", RuneOfName(r.name) = r.n /\ \A i \in 1..n : r.name[i] \in 0..25, r)
  /\ Chk("C32.parse", r.back.st = "ok" /\ r.back.n = r.n, r.back)
  /\ Chk("C32.commitment", r.commitment = LeBytes(r.n), <<r.commitment, LeBytes(r.n)>>)
  /\ Chk("C32.reserved", r.reserved = Le(Reserved, r.n), r)
  /\ Chk("C32.spaced", Letters(r.spaced) = r.name
                       /\ SpacerBits(r.spaced, 0) = {b \in SeqToSet(r.bits) : b < n - 1}
                       /\ \A i \in 1..(Len(r.spaced) - 1) : ~(r.spaced[i] = 100 /\ r.spaced[i + 1] = 100),
         <<r.spaced, r.bits>>)
  /\ Chk("C32.spacedParse", r.sback.st = "ok" /\ r.sback.n = r.n
                            /\ SeqToSet(r.sback.bits) = {b \in SeqToSet(r.bits) : b < n - 1}, r.sback)

\* ---------------------------------------------------------------- C33
RuneMin(r) ==
  /\ (r.consecutive /\ prev.net = r.net => Chk("C33.monotone", Le(r.min, prev.min), <<prev, r>>))
  /\ (r.h = r.first => Chk("C33.thirteen", Le(r.min, Step(12)), r))
  /\ (r.h >= r.first + HALVING => Chk("C33.complete", r.min = <<>>, r))
  /\ (r.h < r.first => Chk("C33.before", r.min = Step(12), r))
RuneUnlock(r) ==
  IF Le(Reserved, r.n) THEN Chk("C33.reserved", r.unlock = 0 - 1, r)
  ELSE /\ Chk("C33.unlock", r.unlock >= 0 /\ Le(r.minAt, r.n), r)
       /\ (r.unlock > 0 => Chk("C33.first", Lt(r.n, r.minBefore), r))

\* ---------------------------------------------------------------- C34: any decimal string
\* int.frac denotes V / 10^L with sig = frac without trailing zeros, L = Len(sig), V = digits(int sig); converting to
\* divisibility d yields V * 10^(d - L) base units, or excess precision (L > d), or overflow (>= 2^128)
DecStr(r) ==
  LET sig == StripTrailingZeros(r.frac)
      L == Len(sig)
      V == FromDigits(r.int \o sig)
      fits == Lt(V, TwoPow128)
      res == r.res
      units == Mul(V, PowS(10, r.div - L))
      \* the outcome of parsing and converting together (a string that cannot be converted to any divisibility may
      \* already be refused by the parser)
      final == IF res.st = "ok" THEN res.toint ELSE [st |-> "err", n |-> <<>>]
  IN /\ Chk("C34.total", res.st # "panic" /\ res.toint.st # "panic", r)
     /\ Chk("C34.parseStr", res.st = "ok" => fits /\ res.value = V /\ res.scale = L, <<r, V>>)
     \* sound: a result is the exact number of base units; refusing is always allowed by the property (ord refuses
     \* some representable strings, e.g. a fraction whose digits with their trailing zeros exceed u128)
     /\ Chk("C34.convertStr", final.st = "ok" => (L <= r.div /\ Lt(units, TwoPow128) /\ final.n = units), <<r, units>>)
     \* complete where the property's round trip needs it: at most 38 fractional digits and a representable result
     /\ Chk("C34.convertStrComplete",
            (Len(r.frac) <= 38 /\ Len(r.int) <= 39 /\ Lt(FromDigits(r.int), TwoPow128) /\ L <= r.div /\ Lt(units, TwoPow128)) => final.st = "ok",
            <<r, units>>)

\* ---------------------------------------------------------------- C34
PileRec(r) ==
  LET p == PrintedAmount(r.amount, r.div)
      frac == StripTrailingZeros(p.frac)
  IN /\ Chk("C34.print", r.whole = p.whole /\ r.frac = frac, <<r.whole, r.frac, p>>)
     /\ Chk("C34.parse", r.back.st = "ok" /\ r.back.scale = Len(frac)
                         /\ r.back.value = FromDigits(p.whole \o frac), r.back)
     /\ Chk("C34.toInteger", r.back.toint.st = "ok" /\ r.back.toint.n = r.amount, <<r.amount, r.back.toint>>)

\* ---------------------------------------------------------------- C31
Digits(d) == \A i \in 1..Len(d) : d[i] \in 0..9
SixNine == FromNat(6930000)
ParseRec(r) ==
  LET res == r.res
      ok == res.st = "ok"
  IN /\ ChkKF("C31.total", res.st # "panic", FALSE, "none", <<r.g, r.text>>)
     /\ (ok =>
          CASE r.g = "sat_int" ->
                 Chk("C31.sat_int", ~r.junk /\ r.digits # <<>> /\ Le(FromDigits(r.digits), Sub(Supply, <<1>>))
                                    /\ res.n = FromDigits(r.digits), r)
            [] r.g = "sat_dec" ->
                 LET H == FromDigits(r.h) IN
                 Chk("C31.sat_dec", r.h # <<>> /\ r.o # <<>> /\ Lt(H, SixNine)
                                    /\ Lt(FromDigits(r.o), Subsidy(ToNat(H)))
                                    /\ res.n = Add(StartingSat(ToNat(H)), FromDigits(r.o)), r)
            [] r.g = "sat_deg" ->
                 LET A == FromDigits(r.a)
                     Bn == FromDigits(r.b)
                     Cn == FromDigits(r.c)
                     D == IF r.hasD THEN FromDigits(r.d) ELSE <<>>
                 IN Chk("C31.sat_deg",
                        /\ r.a # <<>> /\ r.b # <<>> /\ r.c # <<>> /\ (r.hasD => r.d # <<>>)
                        /\ Lt(A, <<6>>) /\ Lt(Bn, FromNat(HALVING)) /\ Lt(Cn, FromNat(DIFFCHANGE))
                        /\ \E k \in 0..5 :
                              LET h == ToNat(A) * CYCLE_EPOCHS * HALVING + k * HALVING + ToNat(Bn) IN
                              /\ h % DIFFCHANGE = ToNat(Cn)
                              /\ Lt(D, Subsidy(h))
                              /\ res.n = Add(StartingSat(h), D),
                        r)
            [] r.g = "sat_pct" ->
                 LET L == Len(r.frac)
                     num == Mul(FromDigits(r.int \o r.frac), Sub(Supply, <<1>>))
                     den == MulS(PowS(10, L), 100)
                     \* |n * den - num| <= 4 * den   <=>  n within 4 sats of the exact quotient
                     lhs == Mul(res.n, den)
                     diff == IF Le(num, lhs) THEN Sub(lhs, num) ELSE Sub(num, lhs)
                 IN Chk("C31.sat_pct", r.cls = "num" /\ Le(diff, MulS(den, 4)), r)
            [] r.g = "sat_name" ->
                 LET x == Horner26(r.letters, <<>>) IN
                 Chk("C31.sat_name", r.letters # <<>> /\ Le(x, Supply) /\ res.n = Sub(Supply, x), r)
            [] r.g = "rune" ->
                 Chk("C31.rune", (\A i \in 1..Len(r.letters) : r.letters[i] \in 0..25)
                                 /\ Lt(RuneOfName(r.letters), TwoPow128) /\ res.n = RuneOfName(r.letters), r)
            [] r.g = "spaced" ->
                 LET ls == Letters(r.tokens) IN
                 Chk("C31.spaced",
                     /\ ls # <<>> /\ r.tokens[1] # 100 /\ r.tokens[Len(r.tokens)] # 100
                     /\ \A i \in 1..(Len(r.tokens) - 1) : ~(r.tokens[i] = 100 /\ r.tokens[i + 1] = 100)
                     /\ Lt(RuneOfName(ls), TwoPow128) /\ res.n = RuneOfName(ls)
                     /\ SeqToSet(res.bits) = SpacerBits(r.tokens, 0),
                     r)
            [] r.g = "runeid" ->
                 Chk("C31.runeid", r.b # <<>> /\ r.t # <<>> /\ Lt(FromDigits(r.b), TwoPow64) /\ Lt(FromDigits(r.t), TwoPow32)
                                   /\ res.b = FromDigits(r.b) /\ res.t = FromDigits(r.t), r)
            [] r.g = "decimal" ->
                 LET L == Len(r.frac) IN
                 Chk("C31.decimal",
                     /\ (r.int # <<>> \/ r.frac # <<>>)
                     \* a sign between the point and the fraction digits denotes nothing
                     /\ ~r.plusFrac
                     /\ Lt(res.value, TwoPow128)
                     \* value / 10^scale = int + frac / 10^L
                     /\ Mul(res.value, PowS(10, L)) = Mul(FromDigits(r.int \o r.frac), PowS(10, res.scale)),
                     r)
            [] r.g = "iid" ->
                 Chk("C31.iid", r.hexok /\ r.idx # <<>> /\ Lt(FromDigits(r.idx), TwoPow32) /\ res.idx = FromDigits(r.idx), r)
            [] r.g = "satpoint" ->
                 Chk("C31.satpoint", r.hexok /\ r.vout # <<>> /\ r.off # <<>> /\ Lt(FromDigits(r.vout), TwoPow32)
                                     /\ Lt(FromDigits(r.off), TwoPow64)
                                     /\ res.vout = FromDigits(r.vout) /\ res.off = FromDigits(r.off), r)
            [] OTHER -> TRUE)

Init == l = 1 /\ prev = [net |-> "", min |-> <<>>]
Next ==
  /\ l <= Len(Rec)
  /\ LET r == Rec[l] IN
     /\ CASE r.f = "varint_enc" -> (PROP = "C26" => VarintEnc(r))
          [] r.f = "varint_dec" -> (PROP = "C26" => VarintDec(r))
          [] r.f = "height" -> (PROP = "C29" => IF "panic" \in DOMAIN r THEN Chk("C29.total", FALSE, r) ELSE HeightRec(r))
          [] r.f = "sat" -> IF "panic" \in DOMAIN r
                            THEN (PROP \in {"C29", "C30"} => Chk("C29.total", FALSE, r))
                            ELSE /\ (PROP = "C29" => SatRec(r))
                                 /\ (PROP = "C30" => SatBack(r))
          [] r.f = "rarity_supply" -> (PROP = "C29" => RaritySupplyRec(r))
          [] r.f = "rune" -> (PROP = "C32" => RuneRec(r))
          [] r.f = "runemin" -> (PROP = "C33" => RuneMin(r))
          [] r.f = "rununlock" -> (PROP = "C33" => RuneUnlock(r))
          [] r.f = "pile" -> (PROP = "C34" => PileRec(r))
          [] r.f = "decstr" -> (PROP = "C34" => DecStr(r))
          [] r.f = "parse" -> (PROP = "C31" => ParseRec(r))
          [] OTHER -> TRUE
     /\ prev' = IF r.f = "runemin" THEN [net |-> r.net, min |-> r.min] ELSE prev
  /\ l' = l + 1
Spec == Init /\ [][Next]_vars

Accepted ==
  /\ PrintT(<<"MATCHED", TLCGet("stats").diameter - 1, "OF", Len(Rec)>>)
  /\ TLCGet("stats").diameter - 1 = Len(Rec)
=============================================================================
