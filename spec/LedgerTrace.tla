----------------------------- MODULE LedgerTrace -----------------------------
(* Trace validation for the indexer ledger family (C01-C11, C16, C17, C37).

   The trace is produced by the harness (`ordv run`): `Block` events are the
   abstract description of the blocks it fed to the mock node (inputs of the
   specification); `State` events are projections of the real index after an
   `Index::update()` (observations).  This module folds the blocks with the
   reference rules -- the BIP first-in-first-out sat assignment (Ranges /
   SatLedger), "an inscription is where its sat is", the rune protocol
   (RuneRules) -- and evaluates the listed properties on every observation.
   A trace is accepted iff every line is consumed (POSTCONDITION Accepted).

   PROP (environment variable) selects the property whose predicates are
   enforced; "ALL" enforces every one.                                        *)
EXTENDS Integers, Sequences, FiniteSets, TLC, Json, IOUtils, SequencesExt, FiniteSetsExt,
        Ranges, RuneRules

Rec == ndJsonDeserialize(IOEnv.TRACE)
PROP == IOEnv.PROP
On(p) == PROP = p \/ PROP = "ALL"
                  \/ (PROP = "C15" /\ p \in {"C03", "C04", "C05", "C06", "C07", "C08", "C09", "C10", "C11"})

VARIABLES l,      \* next trace line
          cfg,    \* the Reset record of the current scenario
          L,      \* reference ledger state
          ref     \* C15: <<scenario name, block count>> -> projection first observed (any index flags)
vars == <<l, cfg, L, ref>>

S == 5000      \* block subsidy in units (heights below the first halving)

\* ---------------------------------------------------------------- helpers
Has(r, f) == f \in DOMAIN r
Opt(r, f, d) == IF f \in DOMAIN r THEN r[f] ELSE d
SeqToSet(s) == {s[i] : i \in 1..Len(s)}
Lab(t, i) == t \o ":" \o ToString(i - 1)
Ext(f, g) == [x \in (DOMAIN f) \cup (DOMAIN g) |-> IF x \in DOMAIN g THEN g[x] ELSE f[x]]
Without(f, D) == [x \in (DOMAIN f) \ D |-> f[x]]
RECURSIVE SumSeq(_)
SumSeq(s) == IF s = <<>> THEN 0 ELSE Head(s) + SumSeq(Tail(s))
Kind(o) == IF o.t \in {"opret", "stone"} THEN "opret" ELSE "pay"
ScriptOf(o) == IF o.t = "stone" THEN "stone" ELSE o.t \o ":" \o ToString(o.s)

\* report a failed predicate (a rejected trace has no counterexample)
Chk(name, cond, info) == IF cond THEN TRUE ELSE PrintT(<<"FAIL", name, "line", l, info>>) /\ FALSE
\* a failure that matches a recorded finding is reported as such and tolerated
ChkKF(name, cond, kf, kfname, info) ==
  IF cond THEN TRUE
  ELSE IF kf THEN PrintT(<<"KNOWN", kfname, "line", l, info>>)
  ELSE PrintT(<<"FAIL", name, "line", l, info>>) /\ FALSE

EmptyRunes == [bal |-> <<>>, ent |-> <<>>, names |-> {}, nrunes |-> 0, reserved |-> 0]
InitL == [h |-> 0,
          u |-> ("g:0" :> << <<0, S>> >>),
          meta |-> ("g:0" :> [v |-> S, kind |-> "pay", script |-> "?", h |-> 0, t |-> "pk"]),
          lost |-> <<>>,
          destroyed |-> <<>>,  \* ranges displaced by a transaction reusing a txid (duplicate coinbase)
          runes |-> EmptyRunes,
          runeOf |-> <<>>,
          envs |-> <<>>,       \* inscription label -> static record
          order |-> <<>>,      \* labels in creation (fold) order
          iloc |-> <<>>,       \* bound inscription label -> <<outpoint, offset>>
          floating |-> <<>>,   \* reveal tx label -> set of inscription labels floating in it
          feeReveal |-> {},    \* bound inscriptions whose sat went to fees in their reveal transaction
          rlog |-> <<>>]       \* per transaction rune effects, for the event observer

\* ---------------------------------------------------------------- fold: sats and inscriptions
\* location of sat s among the outputs `labels` with ranges `rs` (parallel sequences)
RECURSIVE FindInOuts(_, _, _, _)
FindInOuts(labels, rs, s, k) ==
  IF k > Len(labels) THEN <<>>
  ELSE LET off == OffsetOf(rs[k], s, 0) IN
       IF off # NotFound THEN <<labels[k], off>> ELSE FindInOuts(labels, rs, s, k + 1)

InStart(tx, meta, i) == SumSeq([j \in 1..(i - 1) |-> meta[tx.ins[j]].v])

RuneIdOf(runeOf, lab, own, ownLabel) ==
  IF lab = "self" THEN NoId
  ELSE IF lab \in DOMAIN runeOf THEN runeOf[lab]
  ELSE IF lab = ownLabel THEN own
  ELSE <<1000000, 7>>

\* the generators only use names of <= 4 letters (below the minimum at every height they reach),
\* 13..26 letters (always etchable) and 27 letters (reserved); the schedule itself is C33
NameClass(n) == IF Len(n) >= 27 THEN "reserved" ELSE IF Len(n) <= 4 THEN "below" ELSE "ok"

\* the abstract transaction handed to RuneRules
RuneTx(tx, st, h, k) ==
  LET hasStone == Has(tx, "stone") /\ \E i \in 1..Len(tx.outs) : tx.outs[i].t = "stone"
      sn == IF hasStone THEN tx.stone ELSE <<>>
      flaw == IF hasStone THEN Opt(sn, "flaw", "") ELSE ""
      art == IF ~hasStone THEN "none"
             ELSE IF flaw = "" THEN "stone"
             ELSE IF flaw \in {"opcode", "varint"} THEN "dead" ELSE "ceno"
      own == <<h, k>>
      rid(lab) == RuneIdOf(st.runeOf, lab, own, tx.label)
      hasEtch == hasStone /\ Has(sn, "etching")
      et == IF hasEtch THEN sn.etching ELSE <<>>
      tm == IF hasEtch /\ Has(et, "terms") THEN et.terms ELSE <<>>
      etch == IF ~hasEtch THEN <<>>
              ELSE [name |-> Opt(et, "name", ""),
                    nameClass |-> IF Has(et, "name") THEN NameClass(et.name) ELSE "none",
                    premine |-> Opt(et, "premine", NN),
                    hasTerms |-> Has(et, "terms"),
                    cap |-> Opt(tm, "cap", NN), amount |-> Opt(tm, "amount", NN),
                    hs |-> Opt(tm, "hs", NN), he |-> Opt(tm, "he", NN),
                    os |-> Opt(tm, "os", NN), oe |-> Opt(tm, "oe", NN)]
  IN [label |-> tx.label, ins |-> tx.ins,
      kinds |-> [i \in 1..Len(tx.outs) |-> Kind(tx.outs[i])],
      outLabels |-> [i \in 1..Len(tx.outs) |-> Lab(tx.label, i)],
      art |-> art,
      edicts |-> IF art = "stone"
                 THEN [i \in 1..Len(sn.edicts) |->
                         [id |-> rid(sn.edicts[i].rune), amount |-> sn.edicts[i].amount,
                          output |-> sn.edicts[i].output]]
                 ELSE <<>>,
      etch |-> etch,
      mint |-> IF hasStone /\ Has(sn, "mint") THEN rid(sn.mint) ELSE NoId,
      pointer |-> IF hasStone THEN Opt(sn, "pointer", NN) ELSE NN]

\* some input reveals a commitment to `name` while spending a taproot output with >= 6 confirmations
CommitOk(tx, st, h, name) ==
  \E i \in 1..Len(tx.commits) :
     LET c == tx.commits[i]
         m == st.meta[tx.ins[c.input + 1]]
     IN c.name = name /\ m.t = "tr" /\ h - m.h + 1 >= 6

\* one non-coinbase transaction; st carries u, meta, fees, iloc, envs, order, floating, runes, runeOf
FoldTx(st, tx, h, k) ==
  LET nIn == Len(tx.ins)
      inR == ConcatAll([i \in 1..nIn |-> st.u[tx.ins[i]]])
      vals == [i \in 1..Len(tx.outs) |-> tx.outs[i].v]
      totalOut == SumSeq(vals)
      sp == SplitR(inR, vals)
      outLabels == [i \in 1..Len(tx.outs) |-> Lab(tx.label, i)]
      insSet == SeqToSet(tx.ins)
      newU == [x \in SeqToSet(outLabels) |-> sp.outs[CHOOSE i \in 1..Len(outLabels) : outLabels[i] = x]]
      newMeta == [x \in SeqToSet(outLabels) |->
                    LET i == CHOOSE j \in 1..Len(outLabels) : outLabels[j] = x IN
                    [v |-> tx.outs[i].v, kind |-> Kind(tx.outs[i]), script |-> ScriptOf(tx.outs[i]),
                     h |-> h, t |-> tx.outs[i].t]]
      \* new inscriptions
      nEnv == Len(tx.envs)
      envRec(j) ==
        LET e == tx.envs[j]
            inV == st.meta[tx.ins[e.input + 1]].v
            start == InStart(tx, st.meta, e.input + 1)
            hasPtr == Has(e, "pointer")
            off == IF hasPtr /\ e.pointer < totalOut THEN e.pointer ELSE start
            unbound == inV = 0 \/ e.even
            \* index of the envelope within its input
            inIdx == Cardinality({jj \in 1..(j - 1) : tx.envs[jj].input = e.input})
        IN [label |-> e.label, tx |-> tx.label, idx |-> j - 1, input |-> e.input, inIdx |-> inIdx,
            hasPtr |-> hasPtr, ptrFwd |-> hasPtr /\ e.pointer < totalOut /\ e.pointer >= start + inV,
            \* repeating any tag -- including the parent tag -- is a duplicate field
            even |-> e.even, dup |-> e.dup \/ Len(e.parents) >= 2, incomplete |-> e.incomplete,
            pushnum |-> e.pushnum, stutter |-> e.stutter, h |-> h,
            unbound |-> unbound, off |-> off,
            sat |-> IF unbound THEN NotFound ELSE SatAt(inR, off),
            parents |-> e.parents]
      newEnvs == [x \in {tx.envs[j].label : j \in 1..nEnv} |->
                    envRec(CHOOSE j \in 1..nEnv : tx.envs[j].label = x)]
      envs2 == Ext(st.envs, newEnvs)
      oldFloating == {x \in DOMAIN st.iloc : st.iloc[x][1] \in insSet}
      moved == oldFloating \cup {x \in DOMAIN newEnvs : ~newEnvs[x].unbound}
      newLoc(x) == LET f == FindInOuts(outLabels, sp.outs, envs2[x].sat, 1) IN
                   IF f = <<>> THEN <<"fee", 0>> ELSE f
      iloc2 == Ext(st.iloc, [x \in moved |-> newLoc(x)])
      rtx == RuneTx(tx, st, h, k)
      commitOk == rtx.etch # <<>> /\ rtx.etch.nameClass # "none" /\ Has(tx, "commits")
                  /\ CommitOk(tx, st, h, rtx.etch.name)
      rr == IF cfg.flags.runes THEN ApplyRuneTx(st.runes, rtx, h, k, commitOk)
            ELSE [bal |-> <<>>, ent |-> <<>>, names |-> {}, nrunes |-> 0, reserved |-> 0,
                  minted |-> <<>>, etched |-> NoId, burnedTx |-> <<>>, allocated |-> <<>>]
  IN [u |-> Ext(Without(st.u, insSet), newU),
      meta |-> Ext(st.meta, newMeta),
      fees |-> st.fees \o sp.rest,
      iloc |-> iloc2,
      envs |-> envs2,
      order |-> st.order \o [j \in 1..nEnv |-> tx.envs[j].label],
      floating |-> IF nEnv = 0 THEN st.floating
                   ELSE Ext(st.floating, (tx.label :> (oldFloating \cup DOMAIN newEnvs))),
      revealedFee |-> st.revealedFee \cup {x \in DOMAIN newEnvs : ~newEnvs[x].unbound /\ iloc2[x][1] = "fee"},
      runes |-> [bal |-> rr.bal, ent |-> rr.ent, names |-> rr.names, nrunes |-> rr.nrunes,
                 reserved |-> rr.reserved],
      runeOf |-> IF Has(tx, "stone") /\ Has(tx.stone, "etching")
                 THEN Ext(st.runeOf, (tx.label :> <<h, k>>)) ELSE st.runeOf,
      rlog |-> Append(st.rlog, [tx |-> tx.label, h |-> h, minted |-> rr.minted, etched |-> rr.etched,
                                burned |-> rr.burnedTx, allocated |-> rr.allocated,
                                outLabels |-> outLabels])]

RECURSIVE FoldTxs(_, _, _, _)
FoldTxs(st, txs, h, k) == IF k > Len(txs) THEN st ELSE FoldTxs(FoldTx(st, txs[k], h, k), txs, h, k + 1)

FoldBlock(Lp, b) ==
  LET h == b.h
      st0 == [u |-> Lp.u, meta |-> Lp.meta, fees |-> <<>>, iloc |-> Lp.iloc, envs |-> Lp.envs,
              order |-> Lp.order, floating |-> Lp.floating, revealedFee |-> {},
              runes |-> Lp.runes, runeOf |-> Lp.runeOf, rlog |-> <<>>]
      \* envelopes below the chain's first inscription height are not inscriptions
      txs == IF h < Opt(cfg, "firstInscription", 0)
             THEN [k \in 1..Len(b.txs) |-> [b.txs[k] EXCEPT !.envs = <<>>]]
             ELSE b.txs
      st == FoldTxs(st0, txs, h, 1)
      \* a duplicate coinbase has the txid -- hence the label -- of the coinbase it repeats: its outputs
      \* displace the older entries, and the sats still held there are destroyed
      cbl == IF Has(b, "dup") THEN "c" \o b.dup ELSE "c" \o b.id
      cin == << <<h * S, (h + 1) * S>> >> \o st.fees
      vals == [i \in 1..Len(b.cb) |-> b.cb[i].v]
      sp == SplitR(cin, vals)
      outLabels == [i \in 1..Len(b.cb) |-> Lab(cbl, i)]
      newU == [x \in SeqToSet(outLabels) |-> sp.outs[CHOOSE i \in 1..Len(outLabels) : outLabels[i] = x]]
      newMeta == [x \in SeqToSet(outLabels) |->
                    LET i == CHOOSE j \in 1..Len(outLabels) : outLabels[j] = x IN
                    [v |-> b.cb[i].v, kind |-> Kind(b.cb[i]), script |-> ScriptOf(b.cb[i]),
                     h |-> h, t |-> b.cb[i].t]]
      inFee == {x \in DOMAIN st.iloc : st.iloc[x][1] = "fee"}
      lostBase == Total(Lp.lost)
      newLoc(x) == LET f == FindInOuts(outLabels, sp.outs, st.envs[x].sat, 1) IN
                   IF f # <<>> THEN f
                   ELSE <<"lost", lostBase + OffsetOf(sp.rest, st.envs[x].sat, 0)>>
  IN [h |-> h,
      u |-> Ext(st.u, newU),
      meta |-> Ext(st.meta, newMeta),
      lost |-> Lp.lost \o sp.rest,
      destroyed |-> Lp.destroyed \o ConcatAll([i \in 1..Len(outLabels) |->
                                                 IF outLabels[i] \in DOMAIN st.u THEN st.u[outLabels[i]] ELSE <<>>]),
      runes |-> st.runes,
      runeOf |-> st.runeOf,
      envs |-> st.envs,
      feeReveal |-> Lp.feeReveal \cup st.revealedFee,
      order |-> st.order,
      iloc |-> Ext(st.iloc, [x \in inFee |-> newLoc(x)]),
      floating |-> st.floating,
      rlog |-> Lp.rlog \o st.rlog]

\* location of an arbitrary sat in the reference ledger
LocSat(s) ==
  LET holders == {o \in DOMAIN L.u : OffsetOf(L.u[o], s, 0) # NotFound} IN
  IF holders # {} THEN LET o == CHOOSE x \in holders : TRUE IN <<o, OffsetOf(L.u[o], s, 0)>>
  ELSE IF OffsetOf(L.lost, s, 0) # NotFound THEN <<"lost", OffsetOf(L.lost, s, 0)>>
  ELSE <<>>

\* ---------------------------------------------------------------- observations
ObsOuts(o) == {x \in DOMAIN o.outs : ~Has(o.outs[x], "absent")}
RealObsOuts(o) == ObsOuts(o) \ {"lost", "unbound"}
ObsRanges(o, x) == IF x \in ObsOuts(o) /\ Has(o.outs[x], "r") THEN o.outs[x].r ELSE <<>>
ObsIns(o, x) == IF x \in ObsOuts(o) /\ Has(o.outs[x], "ins") THEN o.outs[x].ins ELSE <<>>
Charms(i) == SeqToSet(i.charms)
InscByLabel(o) == [x \in DOMAIN o.inscIdx |-> o.insc[o.inscIdx[x]]]

\* ---- C01: sat ranges follow the BIP assignment
C01(o) ==
  /\ Chk("C01.nonunit", o.nonunit = <<>>, o.nonunit)
  /\ Chk("C01.unknown", o.unknownOuts = <<>>, o.unknownOuts)
  /\ Chk("C01.domain", RealObsOuts(o) = DOMAIN L.u,
         <<"missing", DOMAIN L.u \ RealObsOuts(o), "extra", RealObsOuts(o) \ DOMAIN L.u>>)
  /\ \A x \in RealObsOuts(o) \cap DOMAIN L.u :
        Chk("C01.ranges", Norm(ObsRanges(o, x)) = Norm(L.u[x]) /\ o.outs[x].listOk,
            <<x, ObsRanges(o, x), L.u[x]>>)
  /\ Chk("C01.lost", Norm(ObsRanges(o, "lost")) = Norm(L.lost), <<ObsRanges(o, "lost"), L.lost>>)

\* ---- C02: partition and lookups
\* o.sorted is the harness's listing of every stored range [start, end, outpoint], sorted by
\* start (a projection of the same `list` results that C01 compares with the reference ledger)
C02(o) ==
  LET sorted == o.sorted
      inOut(x, s) == OffsetOf(ObsRanges(o, x), s, 0)
  IN /\ Chk("C02.nonunit", o.nonunit = <<>>, o.nonunit)
     /\ Chk("C02.partition",
            IF L.destroyed = <<>>
            THEN /\ (sorted = <<>> \/ sorted[1][1] = 0)
                 /\ \A k \in 1..(Len(sorted) - 1) : sorted[k][2] = sorted[k + 1][1]
                 /\ (sorted # <<>> => sorted[Len(sorted)][2] = o.count * S)
            ELSE \* the stored ranges, together with the destroyed ones, tile [0, count * S) without overlap
                 LET all == [k \in 1..Len(sorted) |-> <<sorted[k][1], sorted[k][2]>>] \o SelectSeq(L.destroyed, LAMBDA r : r[2] > r[1])
                     starts == {all[k][1] : k \in 1..Len(all)}
                     ends == {all[k][2] : k \in 1..Len(all)}
                 IN /\ Cardinality(starts) = Len(all)
                    /\ SumSeq([k \in 1..Len(all) |-> all[k][2] - all[k][1]]) = o.count * S
                    /\ starts \ ends = {0} /\ ends \ starts = {o.count * S}
            /\ Len(sorted) = SumSeq([k \in 1..Len(o.outOrder) |->
                                     Len(SelectSeq(ObsRanges(o, o.outOrder[k]), LAMBDA r : r[2] > r[1]))]),
            <<"count", o.count>>)
     /\ Chk("C02.outOrder", SeqToSet(o.outOrder) = ObsOuts(o) /\ Len(o.outOrder) = Cardinality(ObsOuts(o)), o.outOrder)
     /\ \A x \in RealObsOuts(o) \cap DOMAIN L.meta :
           Chk("C02.value", Total(ObsRanges(o, x)) = o.outs[x].v /\ o.outs[x].v = L.meta[x].v, x)
     /\ Chk("C02.lostStat", o.stats.lost = Total(ObsRanges(o, "lost")), o.stats.lost)
     /\ \A k \in 1..Len(o.finds) :
           LET s == o.finds[k][1]
               f == o.finds[k][2]
           IN Chk("C02.find",
                  IF s >= o.count * S \/ OffsetOf(L.destroyed, s, 0) # NotFound THEN f = <<>>
                  ELSE f # <<>> /\ f[1] \in ObsOuts(o) /\ inOut(f[1], s) = f[2],
                  o.finds[k])
     /\ \A k \in 1..Len(o.franges) :
           LET fr == o.franges[k] IN
           IF fr[2] > o.count * S THEN Chk("C02.frangeUnmined", ~fr[3], fr)
           ELSE IF \E d \in 1..Len(L.destroyed) : L.destroyed[d][1] < fr[2] /\ fr[1] < L.destroyed[d][2] THEN TRUE  \* touches destroyed sats
           ELSE Chk("C02.frange",
                    /\ fr[3]
                    /\ SumSeq([j \in 1..Len(fr[4]) |-> fr[4][j][2]]) = fr[2] - fr[1]
                    /\ \A j \in 1..Len(fr[4]) :
                          LET p == fr[4][j] IN
                          /\ p[1] >= fr[1] /\ p[1] + p[2] <= fr[2] /\ p[2] > 0
                          /\ p[3] \in ObsOuts(o)
                          /\ inOut(p[3], p[1]) = p[4]
                          /\ inOut(p[3], p[1] + p[2] - 1) = p[4] + p[2] - 1
                    /\ \A j1, j2 \in 1..Len(fr[4]) : j1 # j2 => fr[4][j1][1] # fr[4][j2][1],
                    fr)
     /\ \A k \in 1..Len(o.rare) :
           \* a rare sat destroyed by a duplicate txid keeps a stale row (recorded finding C02-stale-rare-row-after-duplicate)
           ChkKF("C02.rareRow", o.rare[k][2] \in ObsOuts(o) /\ inOut(o.rare[k][2], o.rare[k][1]) = o.rare[k][3],
                 OffsetOf(L.destroyed, o.rare[k][1], 0) # NotFound, "C02-stale-rare-row-after-duplicate", o.rare[k])
     /\ LET rareSats == {o.rare[j][1] : j \in 1..Len(o.rare)} IN
        \A k \in 1..Len(sorted) :
           (sorted[k][1] % S = 0) => Chk("C02.rareMissing", sorted[k][1] \in rareSats, sorted[k])

\* ---- C03: inscriptions move with their sat
C03(o) ==
  LET I == InscByLabel(o) IN
  /\ Chk("C03.nonunit", o.nonunit = <<>>, o.nonunit)
  /\ \A x \in DOMAIN I :
     x \in DOMAIN L.envs =>
       LET e == L.envs[x]
           i == I[x]
       IN IF e.unbound
          THEN Chk("C03.unbound", i.sp # <<>> /\ i.sp[1] = "unbound" /\ i.sat = NotFound /\ "unbound" \in Charms(i), i)
          ELSE /\ Chk("C03.bound", "unbound" \notin Charms(i) /\ i.sp # <<>> /\ i.sp[1] # "unbound", i)
               /\ Chk("C03.location", i.sp = L.iloc[x], <<x, i.sp, L.iloc[x]>>)
               /\ (cfg.flags.sats => Chk("C03.sat", i.sat = e.sat /\ i.find = i.sp, <<x, i.sat, e.sat, i.find>>))
               /\ (L.iloc[x][1] \in DOMAIN L.meta /\ L.meta[L.iloc[x][1]].kind = "opret"
                     => Chk("C03.burned", "burned" \in Charms(i), i))
               /\ (L.iloc[x][1] = "lost" => Chk("C03.lost", "lost" \in SeqToSet(i.effCharms), i))

\* ---- C04: never duplicated or dropped
C04(o) ==
  LET I == InscByLabel(o)
      allPairs == UNION {{<<y, k>> : k \in 1..Len(ObsIns(o, y))} : y \in ObsOuts(o)}
      listed == {ObsIns(o, p[1])[p[2]][1] : p \in allPairs}
  IN /\ Chk("C04.nonunit", o.nonunit = <<>>, o.nonunit)
     /\ Chk("C04.count", o.nEntries = Len(L.order) /\ Len(o.insc) = Len(L.order)
                         /\ o.nIds = o.nEntries /\ o.nNumbers = o.nEntries /\ o.nSatpoints = o.nEntries
                         /\ o.stats.blessed + o.stats.cursed = o.nEntries,
            <<o.nEntries, Len(L.order), Len(o.insc), o.nIds, o.nNumbers, o.nSatpoints, o.stats>>)
     /\ Chk("C04.all", DOMAIN I = SeqToSet(L.order), <<SeqToSet(L.order) \ DOMAIN I>>)
     /\ \A y \in ObsOuts(o) : Chk("C04.listLen", Has(o.outs[y], "insRaw") => o.outs[y].insRaw = Len(ObsIns(o, y)), y)
     \* every inscription is listed by exactly one output: no label listed twice, none missing
     /\ Chk("C04.oneHolder", Cardinality(listed) = Cardinality(allPairs) /\ listed = DOMAIN I,
            <<"unlisted", DOMAIN I \ listed, "unknown", listed \ DOMAIN I, Cardinality(allPairs)>>)
     /\ \A p \in allPairs :
           LET ent == ObsIns(o, p[1])[p[2]] IN
           /\ (ent[1] \in DOMAIN I => Chk("C04.listed", I[ent[1]].sp = <<p[1], ent[2]>>, <<ent, p>>))
           /\ (p[1] \notin {"lost", "unbound"} =>
                 Chk("C04.offset", ent[2] < o.outs[p[1]].v, <<ent, p>>))

\* ---- C05: numbers, sequence numbers, ids
C05(o) ==
  LET n == Len(o.insc)
      nonneg(k) == Cardinality({j \in 1..(k - 1) : o.insc[j].num >= 0})
      neg(k) == Cardinality({j \in 1..(k - 1) : o.insc[j].num < 0})
  IN /\ \A k \in 1..n :
        LET i == o.insc[k] IN
        /\ Chk("C05.seq", i.seq = k - 1, i)
        /\ Chk("C05.number", IF i.num >= 0 THEN i.num = nonneg(k) ELSE i.num = 0 - (neg(k) + 1), i)
        /\ (i.l \in DOMAIN L.envs =>
              /\ Chk("C05.id", i.tx = L.envs[i.l].tx /\ i.idx = L.envs[i.l].idx /\ i.idOk, <<i, L.envs[i.l]>>)
              /\ Chk("C05.height", i.h = L.envs[i.l].h, <<i, L.envs[i.l].h>>))
        /\ Chk("C05.jubilee", i.h >= cfg.jubilee => i.num >= 0, i)
     /\ Chk("C05.byNum", Len(o.byNum) = n /\ \A k \in 1..Len(o.byNum) :
              LET r == o.byNum[k] IN r[2] + 1 \in 1..n /\ o.insc[r[2] + 1].num = r[1], o.byNum)
     /\ Chk("C05.bySeq", Len(o.bySeq) = n /\ \A k \in 1..Len(o.bySeq) :
              LET r == o.bySeq[k] IN r[1] = r[2] /\ r[1] + 1 \in 1..n /\ o.insc[r[1] + 1].l = r[3], o.bySeq)
     /\ \A k \in 1..Len(o.inBlock) :
           LET hb == o.inBlock[k][1]
               want == SelectSeq(o.insc, LAMBDA i : i.h = hb)
           IN Chk("C05.inBlock", o.inBlock[k][2] = [j \in 1..Len(want) |-> want[j].l], o.inBlock[k])
     /\ Chk("C05.inBlockAll", {o.insc[k].h : k \in 1..n} = {o.inBlock[k][1] : k \in 1..Len(o.inBlock)}, o.inBlock)
     \* reveals spent to fees in their own block are numbered after the other reveals of that block
     /\ \A a, b \in 1..n :
           LET ia == o.insc[a]
               ib == o.insc[b]
           IN (ia.l \in DOMAIN L.envs /\ ib.l \in DOMAIN L.envs /\ ia.h = ib.h
               /\ ia.l \in L.feeReveal /\ ib.l \notin L.feeReveal /\ ~L.envs[ib.l].unbound)
              => Chk("C05.feeLast", ib.seq < ia.seq, <<ia.l, ib.l>>)

\* ---- C06: reinscriptions flagged, clean first inscriptions blessed
C06(o) ==
  LET I == InscByLabel(o)
      bound == {x \in DOMAIN I \cap DOMAIN L.envs : ~L.envs[x].unbound}
      earlier(x) == {y \in bound : y # x /\ L.envs[y].sat = L.envs[x].sat /\ I[y].seq < I[x].seq}
      \* recorded finding: the earlier inscription arrived through a later input than the
      \* envelope's own input (pointer past its own input), so it was not yet counted
      fwd(x) == L.envs[x].ptrFwd /\ \A y \in earlier(x) : L.envs[y].tx # L.envs[x].tx
  IN \A x \in bound :
       LET e == L.envs[x] IN
       /\ (earlier(x) # {} =>
             ChkKF("C06.reinscription", "reinscription" \in Charms(I[x]), fwd(x),
                   "C06-forward-pointer", <<x, earlier(x)>>))
       /\ ((e.input = 0 /\ e.inIdx = 0 /\ ~e.hasPtr /\ ~e.pushnum /\ ~e.stutter /\ ~e.dup
            /\ ~e.incomplete /\ ~e.even /\ earlier(x) = {})
             => Chk("C06.clean", I[x].num >= 0 /\ Charms(I[x]) \cap {"cursed", "vindicated", "reinscription"} = {},
                    I[x]))

\* ---- C07: provenance
C07(o) ==
  LET I == InscByLabel(o) IN
  /\ \A x \in DOMAIN I \cap DOMAIN L.envs :
        LET c == I[x] IN
        /\ Chk("C07.distinct", Cardinality(SeqToSet(c.parents)) = Len(c.parents), c)
        /\ \A k \in 1..Len(c.parents) :
              LET p == c.parents[k] IN
              /\ Chk("C07.known", p \in DOMAIN I, <<x, p>>)
              /\ (p \in DOMAIN I => Chk("C07.older", I[p].seq < c.seq, <<x, p>>))
              /\ Chk("C07.floating", L.envs[x].tx \in DOMAIN L.floating /\ p \in L.floating[L.envs[x].tx], <<x, p>>)
              /\ Chk("C07.purported", p \in SeqToSet(L.envs[x].parents), <<x, p>>)
              /\ (p \in DOMAIN I => Chk("C07.inverseC", x \in SeqToSet(I[p].children), <<x, p>>))
        /\ \A k \in 1..Len(c.children) :
              Chk("C07.inverseP", c.children[k] \in DOMAIN I /\ x \in SeqToSet(I[c.children[k]].parents),
                  <<x, c.children[k]>>)
        /\ ((~c.hidden /\ c.children # <<>>) =>
              Chk("C07.latest",
                  \E k \in 1..Len(o.latest) :
                     /\ o.latest[k][1] = c.seq
                     /\ o.latest[k][2] = CHOOSE m \in {I[y].seq : y \in SeqToSet(c.children)} :
                                            \A y \in SeqToSet(c.children) : I[y].seq <= m,
                  <<x, c.children, o.latest>>))
  /\ \A k \in 1..Len(o.latest) :
        Chk("C07.latestRow",
            \E x \in DOMAIN I : I[x].seq = o.latest[k][1] /\ ~I[x].hidden /\ I[x].children # <<>>, o.latest[k])

\* ---- C08-C11: runes
ObsBal(o) == [x \in {y \in DOMAIN o.outs : Has(o.outs[y], "runes") /\ o.outs[y].runes # <<>>} |->
                [r \in {<<o.outs[x].runes[k][1], o.outs[x].runes[k][2]>> : k \in 1..Len(o.outs[x].runes)} |->
                   LET k == CHOOSE kk \in 1..Len(o.outs[x].runes) :
                              <<o.outs[x].runes[kk][1], o.outs[x].runes[kk][2]>> = r
                   IN o.outs[x].runes[k][3]]]
ObsEnt(o) == [r \in {<<o.runes[k].id[1], o.runes[k].id[2]>> : k \in 1..Len(o.runes)} |->
                o.runes[CHOOSE k \in 1..Len(o.runes) : <<o.runes[k].id[1], o.runes[k].id[2]>> = r]]

C08(o) ==
  LET B == ObsBal(o)
      E == ObsEnt(o)
      outstanding(r) == FoldSet(LAMBDA x, acc : acc + Get(B[x], r), 0, DOMAIN B)
  IN /\ \A r \in DOMAIN E :
          LET e == E[r]
              amt == IF e.amount = NN THEN 0 ELSE e.amount
          IN Chk("C08.conservation", outstanding(r) + e.burned = e.premine + e.mints * amt,
                 <<r, outstanding(r), e.burned, e.premine, e.mints, amt>>)
     /\ \A x \in DOMAIN B :
          /\ \A r \in DOMAIN B[x] : Chk("C08.balance", B[x][r] > 0 /\ r \in DOMAIN E, <<x, r, B[x][r]>>)
          \* runes sit only on outputs that exist and are not OP_RETURN; only the sat and address indexes give every
          \* unspent output an entry of its own in the output table, so without them its absence there means nothing
          /\ Chk("C08.opret", x \in DOMAIN L.meta /\ L.meta[x].kind # "opret"
                              /\ (Has(o.outs[x], "absent") => (~cfg.flags.sats /\ ~cfg.flags.addresses)), x)
     /\ Chk("C08.unknownOuts", o.unknownRuneOuts = <<>>, o.unknownRuneOuts)

C09(o) ==
  LET B == ObsBal(o)
      E == ObsEnt(o)
  IN /\ Chk("C09.balances", B = L.runes.bal,
            <<"obs-only", {x \in DOMAIN B : x \notin DOMAIN L.runes.bal \/ B[x] # L.runes.bal[x]},
              "spec-only", {x \in DOMAIN L.runes.bal : x \notin DOMAIN B \/ B[x] # L.runes.bal[x]}>>)
     /\ \A r \in DOMAIN E \cap DOMAIN L.runes.ent :
          Chk("C09.burned", E[r].burned = L.runes.ent[r].burned, <<r, E[r].burned, L.runes.ent[r].burned>>)

C10(o) ==
  LET E == ObsEnt(o) IN
  \A r \in DOMAIN E :
     /\ (r \in DOMAIN L.runes.ent =>
           Chk("C10.mints", E[r].mints = L.runes.ent[r].mints, <<r, E[r].mints, L.runes.ent[r].mints>>))
     /\ Chk("C10.cap", E[r].mints <= (IF E[r].cap = NN THEN 0 ELSE E[r].cap), E[r])

C11(o) ==
  LET E == ObsEnt(o)
      SE == L.runes.ent
  IN /\ Chk("C11.ids", DOMAIN E = DOMAIN SE, <<"obs", DOMAIN E, "spec", DOMAIN SE>>)
     /\ Chk("C11.stats", o.stats.runes = Cardinality(DOMAIN E) /\ o.stats.reserved = L.runes.reserved,
            <<o.stats, L.runes.reserved>>)
     /\ \A r \in DOMAIN E \cap DOMAIN SE :
          LET e == E[r]
              s == SE[r]
          IN /\ Chk("C11.entry",
                    /\ e.num = s.num /\ e.block = s.block /\ e.etx = s.etx /\ e.block = r[1]
                    /\ e.premine = s.premine /\ e.hasTerms = s.hasTerms
                    /\ e.cap = s.cap /\ e.amount = s.amount /\ e.hs = s.hs /\ e.he = s.he
                    /\ e.os = s.os /\ e.oe = s.oe,
                    <<r, e, s>>)
             /\ Chk("C11.name", IF s.reservedName THEN e.res = <<r[1], r[2]>> ELSE (e.name = s.name /\ e.res = <<>>),
                    <<r, e.name, e.res, s.name>>)
             /\ Chk("C11.lookups", e.byName = <<r[1], r[2]>> /\ e.etchingOf = e.name, e)
     /\ Chk("C11.numbers", {E[r].num : r \in DOMAIN E} = 0..(Cardinality(DOMAIN E) - 1), DOMAIN E)
     /\ Chk("C11.names", Cardinality({E[r].name : r \in DOMAIN E}) = Cardinality(DOMAIN E), DOMAIN E)

\* ---- C17: address index
C17(o) ==
  /\ \A x \in RealObsOuts(o) \cap DOMAIN L.meta :
        Has(o.outs[x], "script") =>
          Chk("C17.entry", (L.meta[x].script = "?" \/ o.outs[x].script = L.meta[x].script) /\ o.outs[x].v = L.meta[x].v,
              <<x, o.outs[x].script, L.meta[x]>>)
  /\ \A s \in DOMAIN o.addr :
        Chk("C17.rows", SeqToSet(o.addr[s]) = {x \in DOMAIN L.u : L.meta[x].script = s} /\
                        Cardinality(SeqToSet(o.addr[s])) = Len(o.addr[s]),
            <<s, o.addr[s], {x \in DOMAIN L.u : L.meta[x].script = s}>>)
  \* the raw multimap holds exactly one row per stored output, under that output's script
  /\ Chk("C17.rawRows",
         /\ Cardinality(SeqToSet(o.addrRows)) = Len(o.addrRows)
         /\ {o.addrRows[k][2] : k \in 1..Len(o.addrRows)} = ObsOuts(o)
         /\ \A k \in 1..Len(o.addrRows) :
               LET x == o.addrRows[k][2] IN
               IF x \in {"lost", "unbound"} THEN o.addrRows[k][1] = "empty:0"
               ELSE x \in DOMAIN L.meta /\ (L.meta[x].script = "?" \/ o.addrRows[k][1] = L.meta[x].script),
         <<o.addrRows>>)

\* ---- C37: events replay to the indexed state (observer fold)
\* shadow: loc: inscription -> location, charms at creation, rune entries/mints/burned/balances
EvStep(sh, ev) ==
  IF ev.k = "created"
  THEN [sh EXCEPT !.loc = Ext(@, (ev.i :> ev.loc)), !.charms = Ext(@, (ev.i :> SeqToSet(ev.charms))),
                  !.parents = Ext(@, (ev.i :> ev.parents)), !.seq = Ext(@, (ev.i :> ev.seq))]
  ELSE IF ev.k = "transferred"
  THEN [sh EXCEPT !.loc = Ext(@, (ev.i :> ev.new)), !.oldOk = @ /\ ev.i \in DOMAIN sh.loc /\ sh.loc[ev.i] = ev.old]
  ELSE IF ev.k = "etched"
  THEN [sh EXCEPT !.etched = @ \cup {<<ev.rune[1], ev.rune[2]>>},
                  !.etx = Ext(@, (<<ev.rune[1], ev.rune[2]>> :> ev.tx))]
  ELSE IF ev.k = "minted"
  THEN [sh EXCEPT !.mints = Upd(@, <<ev.rune[1], ev.rune[2]>>, Get(@, <<ev.rune[1], ev.rune[2]>>) + 1),
                  !.mintedAmt = Upd(@, <<ev.rune[1], ev.rune[2]>>, Get(@, <<ev.rune[1], ev.rune[2]>>) + ev.amount)]
  ELSE IF ev.k = "burned"
  THEN [sh EXCEPT !.burned = Upd(@, <<ev.rune[1], ev.rune[2]>>, Get(@, <<ev.rune[1], ev.rune[2]>>) + ev.amount)]
  ELSE IF ev.k = "rtransferred"
  THEN [sh EXCEPT !.bal = Upd(@, ev.out, Upd(IF ev.out \in DOMAIN sh.bal THEN sh.bal[ev.out] ELSE <<>>,
                                            <<ev.rune[1], ev.rune[2]>>, ev.amount))]
  ELSE sh
RECURSIVE EvFold(_, _, _)
EvFold(sh, evs, k) == IF k > Len(evs) THEN sh ELSE EvFold(EvStep(sh, evs[k]), evs, k + 1)

EmptyShadow == [loc |-> <<>>, charms |-> <<>>, parents |-> <<>>, seq |-> <<>>, oldOk |-> TRUE,
                etched |-> {}, etx |-> <<>>, mints |-> <<>>, mintedAmt |-> <<>>, burned |-> <<>>, bal |-> <<>>]

\* charms that are fixed at creation (entry charms can later gain "burned")
C37(o, sh) ==
  LET I == InscByLabel(o)
      E == ObsEnt(o)
      B == ObsBal(o)
      \* balances of spent outputs are removed using the block data (every output not in the ledger)
      liveBal == [x \in {y \in DOMAIN sh.bal : y \in DOMAIN L.u} |-> sh.bal[x]]
  IN /\ Chk("C37.transferOld", sh.oldOk, "old location of a transfer event does not match the replayed location")
     /\ Chk("C37.inscriptions", DOMAIN sh.charms = DOMAIN I, <<DOMAIN sh.charms, DOMAIN I>>)
     /\ \A x \in DOMAIN I \cap DOMAIN sh.charms :
          /\ Chk("C37.location",
                 IF "unbound" \in Charms(I[x]) THEN sh.loc[x] = <<>> ELSE sh.loc[x] = I[x].sp,
                 <<x, sh.loc[x], I[x].sp>>)
          /\ Chk("C37.charms", sh.charms[x] \ {"burned"} = Charms(I[x]) \ {"burned"}
                               /\ (("burned" \in sh.charms[x]) => "burned" \in Charms(I[x])),
                 <<x, sh.charms[x], I[x].charms>>)
          /\ Chk("C37.seq", sh.seq[x] = I[x].seq /\ sh.parents[x] = I[x].parents, <<x, sh.seq[x], I[x].seq>>)
     /\ Chk("C37.etched", sh.etched = DOMAIN E /\ \A r \in sh.etched \cap DOMAIN E : sh.etx[r] = E[r].etx,
            <<sh.etched, DOMAIN E>>)
     /\ \A r \in DOMAIN E :
          /\ Chk("C37.mints", Get(sh.mints, r) = E[r].mints, <<r, Get(sh.mints, r), E[r].mints>>)
          /\ Chk("C37.burned", Get(sh.burned, r) = E[r].burned, <<r, Get(sh.burned, r), E[r].burned>>)
     /\ Chk("C37.balances", liveBal = B, <<"shadow", liveBal, "index", B>>)

\* ---- C15: optional indexes do not change inscription or rune results
SatDerived == {"coin", "uncommon", "rare", "epic", "legendary", "mythic", "nineball", "palindrome"}
Proj15(o) ==
  [insc |-> IF cfg.flags.inscriptions
            THEN [k \in 1..Len(o.insc) |->
                    LET i == o.insc[k] IN
                    [l |-> i.l, seq |-> i.seq, num |-> i.num, tx |-> i.tx, idx |-> i.idx, sp |-> i.sp,
                     parents |-> i.parents, feeq |-> i.feeq, feer |-> i.feer, h |-> i.h,
                     charms |-> SeqToSet(i.charms) \ SatDerived]]
            ELSE <<>>,
   runes |-> IF cfg.flags.runes THEN o.runes ELSE <<>>,
   bal |-> IF cfg.flags.runes THEN ObsBal(o) ELSE <<>>]
\* the parts of two projections that both configurations index must be equal
Agree15(a, b) ==
  /\ ((a.insc # <<>> /\ b.insc # <<>>) => a.insc = b.insc)
  /\ (a.runes # <<>> /\ b.runes # <<>> => a.runes = b.runes /\ a.bal = b.bal)
C15Step(o) ==
  LET key == <<cfg.name, o.count>> IN
  IF key \in DOMAIN ref
  THEN /\ Chk("C15.agree", Agree15(ref[key], Proj15(o)), <<key, cfg.flagKey>>)
       /\ ref' = ref
  ELSE ref' = ref @@ (key :> Proj15(o))

\* ---------------------------------------------------------------- the trace machine
Init == l = 1 /\ cfg = <<>> /\ L = InitL /\ ref = <<>>

StateOk(o) ==
  /\ (On("C01") /\ cfg.flags.sats => C01(o))
  /\ (On("C02") /\ cfg.flags.sats => C02(o))
  /\ (On("C03") /\ cfg.flags.inscriptions => C03(o))
  /\ (On("C04") /\ cfg.flags.inscriptions => C04(o))
  /\ (On("C05") /\ cfg.flags.inscriptions => C05(o))
  /\ (On("C06") /\ cfg.flags.inscriptions => C06(o))
  /\ (On("C07") /\ cfg.flags.inscriptions => C07(o))
  /\ (On("C08") /\ cfg.flags.runes => C08(o))
  /\ (On("C09") /\ cfg.flags.runes => C09(o))
  /\ (On("C10") /\ cfg.flags.runes => C10(o))
  /\ (On("C11") /\ cfg.flags.runes => C11(o))
  /\ (On("C17") /\ cfg.flags.addresses => C17(o))
  /\ (On("C37") /\ cfg.events => C37(o, L.shadow))

Next ==
  /\ l <= Len(Rec)
  /\ LET r == Rec[l] IN
     CASE r.e = "Reset" -> cfg' = r /\ L' = InitL @@ [shadow |-> EmptyShadow] /\ UNCHANGED ref
       [] r.e = "Block" -> /\ Chk("trace.height", r.h = L.h + 1, r.h)
                           /\ L' = FoldBlock(L, r) @@ [shadow |-> L.shadow]
                           /\ UNCHANGED <<cfg, ref>>
       [] r.e = "Skip" ->
            \* r.k plain blocks (heights r.first ..) whose coinbase claims the whole subsidy; only the
            \* listed coinbase outputs are spent later
            /\ L' = [L EXCEPT !.h = L.h + r.k,
                              !.u = Ext(@, [x \in {r.outs[i].label : i \in 1..Len(r.outs)} |->
                                             LET i == CHOOSE j \in 1..Len(r.outs) : r.outs[j].label = x IN
                                             << <<r.outs[i].h * S, (r.outs[i].h + 1) * S>> >>]),
                              !.meta = Ext(@, [x \in {r.outs[i].label : i \in 1..Len(r.outs)} |->
                                             LET i == CHOOSE j \in 1..Len(r.outs) : r.outs[j].label = x IN
                                             [v |-> S, kind |-> "pay", script |-> "tr:" \o ToString(r.outs[i].s),
                                              h |-> r.outs[i].h, t |-> "tr"]])]
            /\ UNCHANGED <<cfg, ref>>
       [] r.e = "Update" -> /\ (On("C16") => Chk("C16.update", r.result = "ok", <<r.result, r.text>>))
                            /\ UNCHANGED <<cfg, L, ref>>
       [] r.e = "Events" -> /\ L' = [L EXCEPT !.shadow = EvFold(L.shadow, r.list, 1)]
                            /\ UNCHANGED <<cfg, ref>>
       [] r.e = "State" -> /\ Chk("trace.count", r.count = L.h + 1, <<r.count, L.h>>)
                           /\ StateOk(r)
                           /\ (IF On("C15") THEN C15Step(r) ELSE UNCHANGED ref)
                           /\ UNCHANGED <<cfg, L>>
       [] OTHER -> UNCHANGED <<cfg, L, ref>>
  /\ l' = l + 1

Spec == Init /\ [][Next]_vars

Accepted ==
  /\ PrintT(<<"MATCHED", TLCGet("stats").diameter - 1, "OF", Len(Rec)>>)
  /\ TLCGet("stats").diameter - 1 = Len(Rec)
=============================================================================
