----------------------------- MODULE SendModel -----------------------------
(* Exhaustive exploration of SendBuilder over a boundary alphabet of wallets:
   every configuration is an initial state, the pipeline is deterministic.
   Invariants: the clauses of C20 on the model's own result, and which
   assertion classes are reachable (PanicClasses lists the ones recorded as
   findings; anything else reachable is reported).  `Dump` prints every
   configuration as JSON for the spec -> implementation replay.             *)
EXTENDS SendBuilder, TLC, Json

CONSTANTS OutVals, OutOffs, CardVals, MaxCards, Rates2, TargetSet, InsSet, MarkSet

VARIABLES cfg, res
vars == <<cfg, res>>

Targets == IF TargetSet = "small"
           THEN {[kind |-> "postage", v |-> 0], [kind |-> "exact", v |-> 546], [kind |-> "value", v |-> 5000]}
           ELSE {[kind |-> "postage", v |-> 0], [kind |-> "exact", v |-> 546], [kind |-> "exact", v |-> 10000],
                 [kind |-> "value", v |-> 330], [kind |-> "value", v |-> 5000], [kind |-> "value", v |-> 20001]}
\* marks of a cardinal-valued utxo: plain, runic, locked, inscribed at 0
Marks == IF MarkSet = "plain" THEN {"plain"} ELSE {"plain", "runic", "locked", "inscribed"}
Card(v, m) == [v |-> v, ins |-> IF m = "inscribed" THEN <<0>> ELSE <<>>, runic |-> m = "runic", locked |-> m = "locked"]
CardSeqs == UNION {[1..n -> {Card(v, m) : v \in CardVals, m \in Marks}] : n \in 0..MaxCards}
InsOffs == IF InsSet = "none" THEN {<<>>} ELSE {<<>>, <<0>>, <<0, 5000>>, <<329>>}
OutUtxos == {[v |-> v, ins |-> i, runic |-> FALSE, locked |-> FALSE] : v \in OutVals, i \in InsOffs}

Init == /\ \E ou \in OutUtxos, cs \in CardSeqs, off \in OutOffs, r2 \in Rates2, t \in Targets :
             cfg = [utxos |-> <<ou>> \o cs, out |-> [u |-> 1, off |-> off], r2 |-> r2, target |-> t]
        /\ res = Build(cfg)
Next == UNCHANGED vars
Spec == Init /\ [][Next]_vars

ModelFee == Fee(cfg.r2, VSize(Len(res.ins), Len(res.outs)))
ClausesHold == Clauses(cfg, res, ModelFee)
\* assertion classes recorded as findings (known_findings.json); any other reachable class is an error
KnownPanics == {"panic:postage not stripped"}
NoUnknownPanic == IsPanic(res) => res.st \in KnownPanics
NeverPanics == ~IsPanic(res)
Dump == PrintT(<<"CFG", ToJson([cfg |-> cfg, model |-> [st |-> res.st, ins |-> res.ins, outs |-> res.outs]])>>)
=============================================================================
