-------------------------------- MODULE Offer --------------------------------
(* C24: accepting a counterparty's offer (src/subcommand/wallet/offer/accept.rs).

   An abstract PSBT is
     [ins: Seq([owner: "wallet" | "foreign",
                insc: Seq(inscription label),   \* inscriptions the spent output holds
                runes: BOOLEAN,                 \* the spent output holds runes
                sig: "none" | "std" | "odd"]),  \* unsigned / signed / signed with a signature the node will not preserve
      changeEq: BOOLEAN]                        \* the wallet's balance change equals the named amount
   and the command names an inscription `claim`.

   Decide mirrors Accept::run check by check, in the code's order; its result is
   "sign" or the name of the check that refused.  After signing, the wallet
   compares every other input's signature with the one in the PSBT; `kept[i]`
   says whether the node preserved input i's signature.                       *)
EXTENDS Naturals, Sequences, FiniteSets

WalletIdx(p) == {i \in 1..Len(p.ins) : p.ins[i].owner = "wallet"}

Decide(p, claim) ==
  LET w == WalletIdx(p) IN
  IF \E a, b \in w : a # b THEN "multiple-wallet-inputs"
  ELSE IF w = {} THEN "no-wallet-input"
  ELSE LET i == CHOOSE x \in w : TRUE
           o == p.ins[i]
       IN IF o.runes THEN "runes"
          ELSE IF Len(o.insc) > 1 THEN "several-inscriptions"
          ELSE IF Len(o.insc) = 0 THEN "no-inscription"
          ELSE IF o.insc[1] # claim THEN "other-inscription"
          ELSE IF ~p.changeEq THEN "balance"
          ELSE IF o.sig # "none" THEN "seller-signed"
          ELSE IF \E j \in 1..Len(p.ins) : j # i /\ p.ins[j].sig = "none" THEN "buyer-unsigned"
          ELSE "sign"

\* after signing: refuse to broadcast if some other input's signature changed
AfterSign(p, kept) ==
  LET i == CHOOSE x \in WalletIdx(p) : TRUE IN
  IF \E j \in 1..Len(p.ins) : j # i /\ ~kept[j] THEN "signature-changed" ELSE "broadcast"

\* ---- the property: what must be true of a PSBT whose transaction the wallet broadcasts
Advertised(p, claim, kept) ==
  \E i \in WalletIdx(p) :
       /\ \A x \in WalletIdx(p) : x = i                 \* exactly one wallet input
       /\ p.ins[i].insc = <<claim>>
       /\ ~p.ins[i].runes
       /\ p.changeEq
       /\ \A j \in 1..Len(p.ins) : j # i => p.ins[j].sig # "none" /\ kept[j]
=============================================================================
