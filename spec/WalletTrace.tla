----------------------------- MODULE WalletTrace -----------------------------
(* Trace validation for the wallet rune commands (C22) and node-funded wallet
   transactions (C23).

   The trace is written by `ordv wallet-runes`: a mock node with its wallet, the
   real explorer, and the real `ord wallet send | burn | split | mint` commands
   run as subprocesses.  Each `Op` line carries the wallet's outputs before the
   command (rune balances and inscription counts read from the real index), the
   request, the command's outcome, the node's locked set afterwards, the
   transaction that reached the mempool, and -- after mining it -- what the real
   index says every output of it holds and how much of each rune was burned.

   PROP = "C22": the clauses of C22 on what the index reports.
   PROP = "C23": every non-cardinal wallet output that is not the subject of the
                 command is locked and is not spent.
   PROP = "DRIFT": the transaction equals the one WalletRunes builds for the same
                 inventory and request, and RuneRules applied to it gives the
                 balances the index reports (model conformance; never a verdict). *)
EXTENDS WalletRunes, Json, IOUtils

Rec == ndJsonDeserialize(IOEnv.TRACE)
PROP == IOEnv.PROP

VARIABLES l, idr
vars == <<l, idr>>

Chk(name, cond, info) == IF cond THEN TRUE ELSE PrintT(<<"FAIL", name, "line", l, info>>) /\ FALSE
ChkKF(name, cond, kf, kfname, info) ==
  IF cond THEN TRUE
  ELSE IF kf THEN PrintT(<<"KNOWN", kfname, "line", l, info>>)
  ELSE PrintT(<<"FAIL", name, "line", l, info>>) /\ FALSE

IdOf(r) == <<idr[r], 1>>
\* [[r, a], ...] -> (rune -> a) and (rune id -> a)
ToBal(pairs) == [r \in {pairs[i][1] : i \in 1..Len(pairs)} |-> pairs[CHOOSE i \in 1..Len(pairs) : pairs[i][1] = r][2]]
IdBal(f) == [id \in {IdOf(r) : r \in DOMAIN f} |-> f[CHOOSE r \in DOMAIN f : IdOf(r) = id]]
ToIdBal(pairs) == IdBal(ToBal(pairs))
RECURSIVE SumSeqN(_)
SumSeqN(q) == IF q = <<>> THEN 0 ELSE Head(q) + SumSeqN(Tail(q))

InvEntry(rec, o) == rec.inv[CHOOSE k \in 1..Len(rec.inv) : rec.inv[k].o = o]
InInv(rec, o) == \E k \in 1..Len(rec.inv) : rec.inv[k].o = o
Inventory(rec) == SelectSeq([k \in 1..Len(rec.inv) |-> [o |-> rec.inv[k].o, runes |-> ToBal(rec.inv[k].runes), insc |-> rec.inv[k].insc]],
                            LAMBDA x : x.insc = 0 /\ x.runes # <<>>)
NonCardinal(rec) == {rec.inv[k].o : k \in {j \in 1..Len(rec.inv) : rec.inv[j].insc > 0 \/ rec.inv[j].runes # <<>>}}
TxIns(rec) == [i \in 1..Len(rec.tx.ins) |-> rec.tx.ins[i].o]
BalOf(rec) == [o \in {x \in NonCardinal(rec) : InvEntry(rec, x).runes # <<>>} |-> ToIdBal(InvEntry(rec, o).runes)]

Splits(rec) == [k \in 1..Len(rec.req.outs) |-> ToBal(rec.req.outs[k])]
HasZero(rec) == IF rec.kind = "split" THEN \E k \in 1..Len(rec.req.outs) : \E i \in 1..Len(rec.req.outs[k]) : rec.req.outs[k][i][2] = 0
                ELSE rec.req.amt = 0
Want(rec) == CASE rec.kind = "send" -> << (IdOf(rec.req.r) :> rec.req.amt) >>
               [] rec.kind = "burn" -> <<>>
               [] rec.kind = "split" -> [k \in 1..Len(rec.req.outs) |-> ToIdBal(rec.req.outs[k])]
WantBurn(rec) == IF rec.kind = "burn" THEN (IdOf(rec.req.r) :> rec.req.amt) ELSE <<>>
Asked(rec) == IF rec.kind = "split" THEN UNION {DOMAIN Splits(rec)[k] : k \in 1..Len(rec.req.outs)}
              ELSE IF rec.kind \in {"send", "burn"} THEN {rec.req.r} ELSE {}
Subject(rec) == {o \in NonCardinal(rec) : InvEntry(rec, o).insc = 0 /\ \E r \in Asked(rec) : Get(ToBal(InvEntry(rec, o).runes), r) > 0}

\* a dry run broadcasts nothing: what each output of the returned transaction would receive is computed with the
\* rune protocol (RuneRules, itself validated against the real index by C08-C11 and by the mined operations here)
ObsEdicts(rec) == [i \in 1..Len(rec.tx.edicts) |-> [id |-> IdOf(rec.tx.edicts[i][1]), amount |-> rec.tx.edicts[i][2], output |-> rec.tx.edicts[i][3]]]
Eff(rec) == Effect(BalOf(rec), {IdOf(r) : r \in DOMAIN idr}, TxIns(rec), rec.tx.outs, rec.tx.art = "stone", ObsEdicts(rec), rec.tx.pointer)
Got(rec) == IF rec.dry THEN Eff(rec).allocated ELSE [i \in 1..Len(rec.after.outs) |-> ToIdBal(rec.after.outs[i])]
Burned(rec) == IF rec.dry THEN Eff(rec).burnedTx ELSE ToIdBal(rec.after.burned)

\* ---------------------------------------------------------------- C22
C22(rec) ==
  IF rec.kind \notin {"send", "burn", "split"} THEN TRUE
  ELSE /\ Chk("C22.noBroadcastOnError", ~rec.ok => ~rec.hasTx, <<rec.kind, rec.req, rec.err>>)
       /\ Chk("C22.noPanic", ~rec.panic, <<rec.kind, rec.req, rec.err>>)
       /\ IF HasZero(rec)
          THEN ChkKF("C22.zeroRejected", ~rec.ok /\ ~rec.hasTx, rec.kind # "split", "C22-zero-means-all",
                     <<rec.kind, rec.req, "accepted; burned", IF rec.hasTx THEN rec.after.burned ELSE <<>>, rec.tag>>)
          ELSE rec.ok =>
            /\ Chk("C22.broadcast", rec.hasTx /\ rec.ntx = 1, <<rec.kind, rec.req>>)
            /\ LET got == Got(rec)
                   inTotal == SumBal(TxIns(rec), 1, BalOf(rec))
                   info == <<rec.kind, rec.req, rec.tx, rec.after, rec.tag>>
               IN /\ Chk("C22.recipientsExact", RecipientsExact(got, rec.tx.outs, Want(rec)), info)
                  /\ Chk("C22.burnExact", BurnExact(Burned(rec), WantBurn(rec)), info)
                  /\ Chk("C22.changeReturned", ChangeReturned(got, rec.tx.outs, inTotal, Want(rec), WantBurn(rec)), info)
                  /\ Chk("C22.nothingElsewhere", NothingElsewhere(got, rec.tx.outs), info)

\* ---------------------------------------------------------------- C23
\* node-funded commands only: sending an inscription by id goes through the ordinal-aware builder (C20), not the node
C23(rec) ==
  (rec.hasTx /\ rec.kind # "sendinsc") =>
    LET nc == NonCardinal(rec)
        subj == Subject(rec)
        locked == {rec.locked[i] : i \in 1..Len(rec.locked)}
        ins == {rec.tx.ins[i].o : i \in 1..Len(rec.tx.ins)}
        info == <<rec.kind, rec.req, "inputs", TxIns(rec), "locked", rec.locked, "non-cardinal", nc, rec.tag>>
    IN /\ Chk("C23.lockedFirst", \A o \in nc \ subj : o \in locked, info)
       /\ Chk("C23.noStrayInput", \A o \in ins : o \in nc => o \in subj, info)
       \* an offer spends the seller's output (not ours) plus our funding
       /\ Chk("C23.ownInputs", IF rec.kind = "offer" THEN Cardinality({i \in 1..Len(rec.tx.ins) : ~rec.tx.ins[i].wallet}) = 1
                                ELSE \A i \in 1..Len(rec.tx.ins) : rec.tx.ins[i].wallet, info)
       /\ Chk("C23.nothingBroadcastByOffer", rec.kind = "offer" => rec.broadcast = 0, info)

\* ---------------------------------------------------------------- model conformance
Built(rec) ==
  CASE rec.kind = "send" -> SendOrBurn(Inventory(rec), IdOf, rec.req.r, rec.req.amt, FALSE, TRUE)
    [] rec.kind = "burn" -> SendOrBurn(Inventory(rec), IdOf, rec.req.r, rec.req.amt, TRUE, TRUE)
    [] rec.kind = "split" -> Split(Inventory(rec), IdOf, Splits(rec))
Drift(rec) ==
  IF rec.kind \notin {"send", "burn", "split"} THEN TRUE
  ELSE LET m == Built(rec) IN
       /\ Chk("drift.outcome", m.ok = rec.ok /\ (~m.ok => m.err = rec.err), <<rec.kind, rec.req, "model", m.ok, m.err, "impl", rec.ok, rec.err>>)
       /\ (m.ok /\ rec.ok /\ rec.hasTx) =>
            LET runicIns == SelectSeq(TxIns(rec), LAMBDA o : o \in NonCardinal(rec))
                eff == Eff(rec)
            IN /\ Chk("drift.inputs", runicIns = m.ins, <<rec.kind, rec.req, "model", m.ins, "impl", TxIns(rec)>>)
               /\ Chk("drift.outputs", rec.tx.outs = m.outs \/ rec.tx.outs = m.outs \o <<"wallet">>, <<"model", m.outs, "impl", rec.tx.outs>>)
               /\ Chk("drift.edicts", ObsEdicts(rec) = SortEdicts(m.edicts) /\ (rec.tx.art = "stone") = m.stone,
                      <<"model", m.edicts, "impl", rec.tx.edicts>>)
               /\ Chk("drift.runeRules", rec.dry \/ (eff.allocated = Got(rec) /\ eff.burnedTx = Burned(rec)),
                      <<"model", eff.allocated, eff.burnedTx, "index", rec.after>>)

\* ---------------------------------------------------------------- the wallet's view of itself (`ord wallet balance`)
\* values are pairs <<v \div 10^8, v % 10^8>>
E8 == 100000000
AddP(a, b) == LET lo == a[2] + b[2] IN <<a[1] + b[1] + lo \div E8, lo % E8>>
RECURSIVE SumP(_)
SumP(s) == IF s = <<>> THEN <<0, 0>> ELSE AddP(Head(s), SumP(Tail(s)))
ValuesWhere(rec, P(_)) == LET sel == SelectSeq(rec.outs, P) IN [k \in 1..Len(sel) |-> sel[k].v]
View(rec) ==
  LET card == SumP(ValuesWhere(rec, LAMBDA o : ~o.insc /\ o.runes = <<>>))
      ord == SumP(ValuesWhere(rec, LAMBDA o : o.insc))
      run == SumP(ValuesWhere(rec, LAMBDA o : o.runes # <<>>))
      both == \E k \in 1..Len(rec.outs) : rec.outs[k].insc /\ rec.outs[k].runes # <<>>
      perRune == LET bals == [k \in 1..Len(rec.outs) |-> ToBal(rec.outs[k].runes)]
                     rs == UNION {DOMAIN bals[k] : k \in 1..Len(bals)}
                 IN [r \in rs |-> SumSeqN([k \in 1..Len(bals) |-> Get(bals[k], r)])]
      info == <<rec.cardinal, rec.ordinal, rec.runic, rec.total, rec.runes, rec.tag>>
  IN /\ Chk("view.ok", rec.ok, info)
     /\ Chk("view.cardinal", rec.cardinal = card, <<info, card>>)
     /\ Chk("view.ordinal", rec.ordinal = ord, <<info, ord>>)
     /\ Chk("view.runic", rec.runic = run, <<info, run>>)
     \* the total is the sum of the three classes: an output that is both inscribed and runic is counted twice (and warned about)
     /\ Chk("view.total", rec.total = AddP(card, AddP(ord, run)), info)
     /\ Chk("view.totalIsEverything", ~both => rec.total = SumP([k \in 1..Len(rec.outs) |-> rec.outs[k].v]), info)
     /\ Chk("view.warned", rec.warned = both, info)
     /\ Chk("view.runes", ToBal(rec.runes) = perRune, <<info, perRune>>)

\* sending an inscription by id, end to end (the builder itself is C20's subject): a refusal broadcasts nothing; otherwise
\* the inscription is on the first sat of an output of the recipient, the wallet's other inscriptions did not move (those
\* sharing the output stay the wallet's), and no runic or other inscribed output was spent
SendView(rec) ==
  LET info == <<rec.req, rec.ok, rec.err, IF rec.hasTx THEN rec.tx ELSE <<>>, rec.tag>> IN
  /\ Chk("send.noPanic", ~rec.panic, info)
  /\ Chk("send.refusal", ~rec.ok => ~rec.hasTx, info)
  /\ (rec.ok /\ rec.hasTx /\ "sent" \in DOMAIN rec) =>
       /\ Chk("send.arrived", rec.sent.owner = "d1" /\ rec.sent.offset = 0, <<info, rec.sent>>)
       /\ Chk("send.othersStay", rec.sent.othersMoved = 0 /\ rec.sent.companionsKept, <<info, rec.sent>>)
       /\ Chk("send.inputs", \A i \in 1..Len(rec.tx.ins) :
                               (rec.tx.ins[i].o \in NonCardinal(rec)) => rec.tx.ins[i].o = rec.req.from, info)
       /\ Chk("send.notRunic", ~rec.req.fromRunic, info)

Init == l = 1 /\ idr = <<>>
Next == /\ l <= Len(Rec)
        /\ LET rec == Rec[l] IN
           IF rec.event = "World"
           THEN idr' = [r \in {rec.runes[i].r : i \in 1..Len(rec.runes)} |-> rec.runes[CHOOSE i \in 1..Len(rec.runes) : rec.runes[i].r = r].idr]
           ELSE IF rec.event = "Balance"
           THEN UNCHANGED idr /\ (PROP = "VIEW" => View(rec))
           ELSE /\ UNCHANGED idr
                /\ (PROP = "VIEW" /\ rec.kind = "sendinsc" => SendView(rec))
                /\ (PROP = "C22" => C22(rec))
                /\ (PROP = "C23" => C23(rec))
                /\ (PROP = "DRIFT" => Drift(rec))
        /\ l' = l + 1
Spec == Init /\ [][Next]_vars
Accepted ==
  /\ PrintT(<<"MATCHED", TLCGet("stats").diameter - 1, "OF", Len(Rec)>>)
  /\ TLCGet("stats").diameter - 1 = Len(Rec)
=============================================================================
