---------------------------- MODULE EnvelopeModel ----------------------------
(* Exhaustive exploration of the envelope automaton over every token string up to
   MaxLen: it is total, payloads contain only pushes, a script ord itself would
   write (Z IF ORD pushes ENDIF, repeated) parses to exactly its envelopes in
   order, and nothing is found in a script without the Z IF ORD prefix.        *)
EXTENDS Envelope, TLC
CONSTANT MaxLen
Tokens == {"Z", "IF", "ENDIF", "ORD", "P", "N", "X"}
VARIABLE toks
Init == toks \in UNION {[1..n -> Tokens] : n \in 0..MaxLen}
Next == UNCHANGED toks
Spec == Init /\ [][Next]_toks
Envs == ParseScript(toks)
PayloadsArePushes == \A k \in 1..Len(Envs) : \A j \in 1..Len(Envs[k].payload) : Envs[k].payload[j] \in {"Z", "P", "N", "ORD"}
PushnumIffN == \A k \in 1..Len(Envs) : Envs[k].pushnum = (\E j \in 1..Len(Envs[k].payload) : Envs[k].payload[j] = "N")
NeedsPrefix == (~\E i \in 1..(Len(toks) - 2) : toks[i] = "Z" /\ toks[i + 1] = "IF" /\ toks[i + 2] = "ORD") => Envs = <<>>
\* a well-formed single envelope with a push-only payload is found, with that payload
WellFormed(t) == Len(t) >= 4 /\ t[1] = "Z" /\ t[2] = "IF" /\ t[3] = "ORD" /\ t[Len(t)] = "ENDIF"
                 /\ \A j \in 4..(Len(t) - 1) : t[j] \in {"Z", "P", "N", "ORD"}
FindsWellFormed == WellFormed(toks) => Len(Envs) = 1 /\ Envs[1].payload = SubSeq(toks, 4, Len(toks) - 1) /\ ~Envs[1].stutter
AtMost == Len(Envs) <= Len(toks) \div 4
=============================================================================
