----------------------------- MODULE WalletModel -----------------------------
(* C22 / C23, level A: every small wallet (up to MaxOuts outputs over the runes
   1..NRunes with balances 0..MaxBal, each possibly inscribed; outputs with no
   runes and no inscription are cardinal), every send / burn / split request with
   amounts 0..MaxAmt, and the node funding the transaction with ANY unlocked
   wallet outputs it likes (bitcoind's coin selection is not ours to predict; the
   mock node only ever takes the largest).  The transaction the wallet builds
   (WalletRunes) is run through the rune protocol (RuneRules) and the clauses of
   C22 and C23 are invariants of the result.                                  *)
EXTENDS WalletRunes

CONSTANTS NRunes, MaxOuts, MaxBal, MaxAmt, MaxSplits, MaxFund,
          RejectZero,     \* TRUE: the code as it is
          LockFirst,      \* TRUE: the code as it is (lock_non_cardinal_outputs before funding)
          IdOrder         \* "same" | "reversed": rune id order relative to rune name order

Runes == 1..NRunes
IdOf(r) == IF IdOrder = "same" THEN <<r, 1>> ELSE <<NRunes + 1 - r, 1>>
Ids == {IdOf(r) : r \in Runes}
RuneOfId(id) == CHOOSE r \in Runes : IdOf(r) = id
OutName(k) == "w" \o ToString(k)

VARIABLES phase, wal, req, res
vars == <<phase, wal, req, res>>

PosBal(f) == [r \in {x \in DOMAIN f : f[x] > 0} |-> f[r]]
IdBal(f) == [id \in {IdOf(r) : r \in DOMAIN f} |-> f[RuneOfId(id)]]
Labels == {wal[k].o : k \in 1..Len(wal)}
Entry(o) == wal[CHOOSE k \in 1..Len(wal) : wal[k].o = o]
Inventory == SelectSeq([k \in 1..Len(wal) |-> [o |-> wal[k].o, runes |-> PosBal(wal[k].runes), insc |-> wal[k].insc]],
                       LAMBDA x : ~x.insc /\ x.runes # <<>>)
NonCardinal == {o \in Labels : Entry(o).insc \/ PosBal(Entry(o).runes) # <<>>}
BalOf == [o \in {x \in Labels : PosBal(Entry(x).runes) # <<>>} |-> IdBal(PosBal(Entry(o).runes))]

\* partial functions Runes -> 0..MaxAmt with a non-empty domain
SplitOuts == UNION {[D -> 0..MaxAmt] : D \in (SUBSET Runes) \ {{}}}
Requests ==
  [kind : {"send", "burn"}, r : Runes, amt : 0..MaxAmt, splits : {<<>>}]
  \cup [kind : {"split"}, r : {0}, amt : {0}, splits : UNION {[1..n -> SplitOuts] : n \in 1..MaxSplits}]

Init == phase = "wallet" /\ wal = <<>> /\ req = <<>> /\ res = <<>>

ChooseWallet ==
  /\ phase = "wallet"
  /\ \E n \in 1..MaxOuts : \E w \in [1..n -> [runes : [Runes -> 0..MaxBal], insc : BOOLEAN]] :
       wal' = [k \in 1..n |-> [o |-> OutName(k), runes |-> w[k].runes, insc |-> w[k].insc]]
  /\ phase' = "request"
  /\ UNCHANGED <<req, res>>

Built(q) ==
  CASE q.kind = "send" -> SendOrBurn(Inventory, IdOf, q.r, q.amt, FALSE, RejectZero)
    [] q.kind = "burn" -> SendOrBurn(Inventory, IdOf, q.r, q.amt, TRUE, RejectZero)
    [] q.kind = "split" -> Split(Inventory, IdOf, q.splits)

Do ==
  /\ phase = "request"
  /\ \E q \in Requests :
       LET tx == Built(q)
           locked == IF LockFirst THEN NonCardinal ELSE {}
           free == (Labels \ locked) \ {tx.ins[i] : i \in 1..Len(tx.ins)}
       IN /\ req' = q
          /\ IF ~tx.ok THEN res' = [ok |-> FALSE, err |-> tx.err]
             ELSE \E F \in {X \in SUBSET free : Cardinality(X) <= MaxFund} :
                    LET ins == tx.ins \o SetToSeq(F)
                        outs == tx.outs \o <<"wallet">>
                        eff == Effect(BalOf, Ids, ins, outs, tx.stone, tx.edicts, NN)
                    IN res' = [ok |-> TRUE, err |-> "", ins |-> ins, outs |-> outs,
                               got |-> eff.allocated, burned |-> eff.burnedTx,
                               inTotal |-> SumBal(ins, 1, BalOf)]
  /\ phase' = "done"
  /\ UNCHANGED wal

Next == ChooseWallet \/ Do
Spec == Init /\ [][Next]_vars

\* ---------------------------------------------------------------- properties
Want == CASE req.kind = "send" -> << (IdOf(req.r) :> req.amt) >>
          [] req.kind = "burn" -> <<>>
          [] req.kind = "split" -> [k \in 1..Len(req.splits) |-> IdBal(req.splits[k])]
WantBurn == IF req.kind = "burn" THEN (IdOf(req.r) :> req.amt) ELSE <<>>
HasZero == IF req.kind = "split" THEN \E k \in 1..Len(req.splits) : \E r \in DOMAIN req.splits[k] : req.splits[k][r] = 0
           ELSE req.amt = 0
\* the outputs the command is about: runic, uninscribed, holding a requested rune
Asked == IF req.kind = "split" THEN UNION {DOMAIN req.splits[k] : k \in 1..Len(req.splits)} ELSE {req.r}
Subject == {o \in Labels : ~Entry(o).insc /\ \E r \in Asked : Entry(o).runes[r] > 0}

C22ZeroRejected == phase = "done" /\ HasZero => ~res.ok
C22Exact == phase = "done" /\ res.ok =>
  /\ RecipientsExact(res.got, res.outs, Want)
  /\ BurnExact(res.burned, WantBurn)
  /\ ChangeReturned(res.got, res.outs, res.inTotal, Want, WantBurn)
  /\ NothingElsewhere(res.got, res.outs)
C23NoStrayInput == phase = "done" /\ res.ok =>
  \A i \in 1..Len(res.ins) : res.ins[i] \in NonCardinal => res.ins[i] \in Subject
\* not vacuous: some request succeeds with several inputs and a change output
=============================================================================
