SPECIFICATION Spec
CONSTANTS MaxIns = 3
INVARIANTS OnlyAdvertised
CHECK_DEADLOCK FALSE
