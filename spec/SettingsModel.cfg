SPECIFICATION Spec
INVARIANTS FlagWins EnvOverFile FileOverDefault SwitchIsOr UnionOfAll
CHECK_DEADLOCK FALSE
