SPECIFICATION Spec
CONSTANTS
  OutVals = {330, 546, 9000, 10000, 20001, 50000}
  OutOffs = {0, 329, 330, 5000}
  CardVals = {168, 169, 330, 1500, 20000}
  MaxCards = 2
  Rates2 = {0, 2, 3, 20, 2000}
  TargetSet = "full"
  InsSet = "full"
  MarkSet = "marks"
INVARIANTS ClausesHold NoUnknownPanic
CHECK_DEADLOCK FALSE
