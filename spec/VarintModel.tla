---------------------------- MODULE VarintModel ----------------------------
(* Design-level check of the LEB128 decoder automaton (as implemented:
   position counter, 7-bit groups, overflow test on the 19th group, overlong
   beyond 19 bytes) against the property-level definition in OrdNumbers, for
   every byte string over a class alphabet up to length MaxLen and for the
   18..21-byte boundary with tied middle bytes; and encode/decode round trip.  *)
EXTENDS OrdNumbers, Sequences, TLC

CONSTANTS MaxLen
Alphabet == {0, 1, 3, 4, 127, 128, 129, 131, 132, 255}
VARIABLES input, verdict     \* verdict: "todo" | "ok" | "conforms" | "roundtrip"
Short == UNION {[1..n -> Alphabet] : n \in 0..MaxLen}
Long == {[i \in 1..n |-> IF i = 1 THEN a ELSE IF i = n THEN z ELSE IF i = n - 1 THEN y ELSE m] :
           n \in 18..21, a \in {128, 255}, m \in {128, 255}, y \in {3, 4, 128, 131, 132, 255}, z \in Alphabet}
Init == input \in Short \cup Long /\ verdict = "todo"

\* the automaton, as in varint::decode
Acc(n, v, i) == Add(n, Mul(FromNat(v), PowS(128, i - 1)))
RECURSIVE Dec(_, _, _)
Dec(b, i, n) == IF i > Len(b) THEN [st |-> "unterminated", n |-> <<>>, len |-> 0]
                ELSE IF i - 1 > 18 THEN [st |-> "overlong", n |-> <<>>, len |-> 0]
                ELSE IF i - 1 = 18 /\ b[i] % 128 > 3 THEN [st |-> "overflow", n |-> <<>>, len |-> 0]
                ELSE IF b[i] < 128 THEN [st |-> "ok", n |-> Acc(n, b[i] % 128, i), len |-> i]
                ELSE Dec(b, i + 1, Acc(n, b[i] % 128, i))
\* the encoder
RECURSIVE Enc(_)
Enc(n) == LET d == DivS(n, 128) IN IF d.q = <<>> THEN <<d.r>> ELSE <<d.r + 128>> \o Enc(d.q)

Conforms ==
  \* (TLC: a LET name must not coincide with a formal parameter of a recursive operator it is passed to)
  LET r == Dec(input, 1, <<>>)
      term == FirstTerm(input, 1)
      fits == term # 0 /\ term <= 19 /\ (term = 19 => input[19] % 128 <= 3)
  IN IF fits THEN r.st = "ok" /\ r.len = term /\ r.n = VarintValue(input, term) /\ Lt(r.n, TwoPow128)
     ELSE r.st # "ok" /\ VarintErrOk(input, r.st)
RoundTrip ==
  LET r == Dec(input, 1, <<>>) IN
  r.st = "ok" => LET e == Enc(r.n) IN Dec(e, 1, <<>>).n = r.n /\ Dec(e, 1, <<>>).len = Len(e) /\ Len(e) <= r.len
\* the checks are evaluated in an action (TLC caches lazily evaluated operator arguments there;
\* as invariants over a variable the nested BigNat recursion re-evaluates them exponentially)
Next == /\ verdict = "todo"
        /\ verdict' = IF ~Conforms THEN "conforms" ELSE IF ~RoundTrip THEN "roundtrip" ELSE "ok"
        /\ UNCHANGED input
Spec == Init /\ [][Next]_<<input, verdict>>
AllConform == verdict \in {"todo", "ok"}
=============================================================================
