---------------------------- MODULE VarintModel ----------------------------
(* Design-level check of the LEB128 decoder automaton (as implemented:
   position counter, 7-bit groups, overflow test on the 19th group, overlong
   beyond 19 bytes) against the property-level definition in OrdNumbers, for
   every byte string over a class alphabet up to length MaxLen and for the
   18..21-byte boundary with tied middle bytes; and encode/decode round trip.  *)
EXTENDS OrdNumbers, Sequences, TLC

CONSTANTS MaxLen
Alphabet == {0, 1, 3, 4, 127, 128, 129, 131, 132, 255}
VARIABLE bs
Short == UNION {[1..n -> Alphabet] : n \in 0..MaxLen}
Long == {[i \in 1..n |-> IF i = 1 THEN a ELSE IF i = n THEN z ELSE IF i = n - 1 THEN y ELSE m] :
           n \in 18..21, a \in {128, 255}, m \in {128, 255}, y \in {3, 4, 128, 131, 132, 255}, z \in Alphabet}
Init == bs \in Short \cup Long
Next == UNCHANGED bs
Spec == Init /\ [][Next]_bs

\* the automaton, as in varint::decode
RECURSIVE Dec(_, _, _)
Dec(b, i, n) == IF i > Len(b) THEN [st |-> "unterminated", n |-> <<>>, len |-> 0]
                ELSE IF i - 1 > 18 THEN [st |-> "overlong", n |-> <<>>, len |-> 0]
                ELSE LET v == b[i] % 128 IN
                     IF i - 1 = 18 /\ v > 3 THEN [st |-> "overflow", n |-> <<>>, len |-> 0]
                     ELSE LET n2 == Add(n, Mul(FromNat(v), PowS(128, i - 1))) IN
                          IF b[i] < 128 THEN [st |-> "ok", n |-> n2, len |-> i] ELSE Dec(b, i + 1, n2)
\* the encoder
RECURSIVE Enc(_)
Enc(n) == LET d == DivS(n, 128) IN IF d.q = <<>> THEN <<d.r>> ELSE <<d.r + 128>> \o Enc(d.q)

Conforms ==
  LET r == Dec(bs, 1, <<>>)
      t == FirstTerm(bs, 1)
      fits == t # 0 /\ t <= 19 /\ (t = 19 => bs[19] % 128 <= 3)
  IN IF fits THEN r.st = "ok" /\ r.len = t /\ r.n = VarintValue(bs, t) /\ Lt(r.n, TwoPow128)
     ELSE r.st # "ok" /\ VarintErrOk(bs, r.st)
RoundTrip ==
  LET r == Dec(bs, 1, <<>>) IN
  r.st = "ok" => LET e == Enc(r.n) IN Dec(e, 1, <<>>).n = r.n /\ Dec(e, 1, <<>>).len = Len(e) /\ Len(e) <= r.len
=============================================================================
