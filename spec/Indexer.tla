------------------------------ MODULE Indexer ------------------------------
(* The ord indexing protocol (Index::update, Updater::update_index / commit,
   Reorg::{detect_reorg, handle_reorg, is_savepoint_required, update_savepoints})
   with block contents abstracted to block ids.  One action per critical section
   of the code; every action corresponds to exactly one event of the guarded
   tracer (src/verif.rs), so that IndexerTrace.tla can replay recorded runs:

     UpdateBegin   "UpdateBegin"     loop head of Index::update (also after a rollback)
     IndexBlock    "BlockIndexed"    Updater::index_block
     DetectReorg   "ReorgDetected"   Reorg::detect_reorg (error path)
     CommitMain    "CommitMain"      Updater::commit, main + empty transaction
     SpDelete      "SavepointDelete" Reorg::update_savepoints, first transaction
     SpCreate      "SavepointCreate" Reorg::update_savepoints, second transaction
     HandleReorg   "Rollback"        Reorg::handle_reorg
     UpdateEnd     "Update"          Index::update returns (logged by the harness)
     NodeMine / NodeFork             the node's best chain changes ("Block"/"Pop")
     Crash / Reopen                  the process dies between two actions / index reopened

   The durable database `db` changes only in CommitMain, SpDelete, SpCreate and
   HandleReorg (each one redb transaction).  C12 (schedule independence), C13
   (crash consistency) and C14 (reorg recovery) are stated at the end.           *)
EXTENDS Naturals, Sequences, FiniteSets, SequencesExt, TLC

CONSTANTS CommitInterval, SavepointInterval, MaxSavepoints,
          MaxHeight,      \* bound on the node's chain length
          MaxForks,       \* bound on the number of branch switches
          MaxForkDepth,   \* bound on the number of blocks replaced by one switch
          MaxCrashes,     \* bound on the number of crashes
          UseHeaders,     \* TRUE: getblockchaininfo.headers is the tip height; FALSE: 0 (mockcore)
          Fixed           \* TRUE: model the repaired code (a rollback that does not reach the fork
                          \*       point, or finds no savepoint, is reported as unrecoverable)

VARIABLES node,        \* Seq of block ids; node[1] = 0 is genesis, node[h + 1] the block at height h
          nextId, forks, crashes,
          db,          \* durable: [blocks: Seq(id), lastSp: Nat, sps: Seq([blocks, lastSp])]
          pc,          \* "idle" | "fetch" | "commit" | "sp_delete" | "sp_create" | "rollback"
                       \* | "retry" | "ok" | "unrecoverable" | "panic" | "down"
          uh,          \* updater: self.height = number of blocks indexed incl. uncommitted
          pend,        \* updater: ids indexed in the open write transaction
          unc,         \* updater: uncommitted counter
          final,       \* the pending commit is the one after the last block
          reorg,       \* last detected recoverable reorg <<height, depth>> (counting genesis as in the code)
          flagged      \* Index::unrecoverably_reorged

vars == <<node, nextId, forks, crashes, db, pc, uh, pend, unc, final, reorg, flagged>>

Sub(a, b) == IF a >= b THEN a - b ELSE 0
MinOfSet(S) == CHOOSE x \in S : \A y \in S : x <= y
Count(blocks) == Len(blocks)
Headers == IF UseHeaders THEN Len(node) - 1 ELSE 0

\* Reorg::is_savepoint_required(height): `height` is the block count; reads the committed
\* LastSavepointHeight statistic
SavepointRequired(cnt) ==
  /\ (cnt < SavepointInterval \/ Sub(cnt, db.lastSp) >= SavepointInterval)
  /\ Sub(Headers, cnt) <= SavepointInterval * MaxSavepoints + 1

Init ==
  /\ node = <<0>> /\ nextId = 1 /\ forks = 0 /\ crashes = 0
  /\ db = [blocks |-> <<>>, lastSp |-> 0, sps |-> <<>>]
  /\ pc = "idle" /\ uh = 0 /\ pend = <<>> /\ unc = 0 /\ final = FALSE /\ reorg = <<0, 0>> /\ flagged = FALSE

\* ---- the node (quiescent: between update calls)
NodeMine ==
  /\ pc = "idle" /\ Len(node) < MaxHeight
  /\ node' = Append(node, nextId) /\ nextId' = nextId + 1
  /\ UNCHANGED <<forks, crashes, db, pc, uh, pend, unc, final, reorg, flagged>>

\* switch to a strictly longer branch: the last d blocks are replaced by d+1 fresh ones
NodeFork(d) ==
  /\ pc = "idle" /\ forks < MaxForks /\ d >= 1 /\ d < Len(node) /\ Len(node) + 1 <= MaxHeight
  /\ node' = SubSeq(node, 1, Len(node) - d) \o [i \in 1..(d + 1) |-> nextId + i - 1]
  /\ nextId' = nextId + d + 1 /\ forks' = forks + 1
  /\ UNCHANGED <<crashes, db, pc, uh, pend, unc, final, reorg, flagged>>

\* ---- the updater
Indexed == db.blocks \o pend
\* the next block (height uh) extends the indexed tip (height uh - 1)
ParentOk == IF uh = 0 THEN TRUE ELSE Indexed[uh] = node[uh]

\* Index::update loop head: begin_write, height := committed block count
UpdateBegin ==
  /\ pc \in {"idle", "retry"}
  /\ pc' = "fetch" /\ uh' = Len(db.blocks) /\ pend' = <<>> /\ unc' = 0 /\ final' = FALSE
  /\ UNCHANGED <<node, nextId, forks, crashes, db, reorg, flagged>>

IndexBlock ==
  /\ pc = "fetch" /\ uh < Len(node) /\ ParentOk
  /\ pend' = Append(pend, node[uh + 1]) /\ uh' = uh + 1 /\ unc' = unc + 1
  /\ pc' = IF unc + 1 = CommitInterval \/ SavepointRequired(uh + 1)
           THEN "commit" ELSE "fetch"
  /\ final' = FALSE
  /\ UNCHANGED <<node, nextId, forks, crashes, db, reorg, flagged>>

\* the fetcher has delivered every block of the node's chain
NoMoreBlocks == pc = "fetch" /\ uh >= Len(node)

\* Reorg::detect_reorg(block, height = uh)
\* max_recoverable_reorg_depth = (max_savepoints - 1) * interval + height % interval
MaxDepth == (MaxSavepoints - 1) * SavepointInterval + (uh % SavepointInterval)
\* the index's hash at height uh - d equals the node's hash there
Common(d) == d <= uh /\ Indexed[uh - d + 1] = node[uh - d + 1]
DetectReorg ==
  /\ pc = "fetch" /\ uh < Len(node) /\ ~ParentOk
  /\ LET cands == {d \in 1..(MaxDepth - 1) : d <= uh /\ Common(d)} IN
     IF cands # {}
     THEN /\ reorg' = <<uh, MinOfSet(cands)>> /\ pc' = "rollback" /\ flagged' = flagged
     ELSE /\ reorg' = reorg /\ pc' = "unrecoverable" /\ flagged' = TRUE
  /\ pend' = <<>> /\ unc' = 0 /\ final' = FALSE    \* the write transaction is dropped
  /\ UNCHANGED <<node, nextId, forks, crashes, db, uh>>

\* Updater::commit: the main transaction (and the empty one)
\* (either because the batch is full / a savepoint is due, or -- at the end of update_index --
\* because blocks are pending when the fetcher has nothing more)
CommitMain ==
  /\ pc = "commit" \/ (NoMoreBlocks /\ unc > 0)
  /\ db' = [db EXCEPT !.blocks = db.blocks \o pend]
  /\ pend' = <<>> /\ unc' = 0
  /\ final' = (pc = "fetch")
  /\ pc' = IF (LET cnt == Count(db.blocks) + Len(pend) IN
               (cnt < SavepointInterval \/ Sub(cnt, db.lastSp) >= SavepointInterval)
               /\ Sub(Headers, cnt) <= SavepointInterval * MaxSavepoints + 1)
           THEN "sp_delete" ELSE IF pc = "fetch" THEN "ok" ELSE "fetch"
  /\ UNCHANGED <<node, nextId, forks, crashes, uh, reorg, flagged>>

\* Reorg::update_savepoints, transaction 1: drop the oldest savepoint when at the maximum
SpDelete ==
  /\ pc = "sp_delete"
  /\ db' = IF Len(db.sps) >= MaxSavepoints THEN [db EXCEPT !.sps = Tail(db.sps)] ELSE db
  /\ pc' = "sp_create"
  /\ UNCHANGED <<node, nextId, forks, crashes, uh, pend, unc, final, reorg, flagged>>

\* transaction 2: the savepoint captures the state before LastSavepointHeight is updated
SpCreate ==
  /\ pc = "sp_create"
  /\ db' = [db EXCEPT !.sps = Append(db.sps, [blocks |-> db.blocks, lastSp |-> db.lastSp]),
                      !.lastSp = Count(db.blocks)]
  /\ pc' = IF final THEN "ok" ELSE "fetch"
  /\ UNCHANGED <<node, nextId, forks, crashes, uh, pend, unc, final, reorg, flagged>>

\* Reorg::handle_reorg: restore the OLDEST persistent savepoint; newer ones are deleted by redb
HandleReorg ==
  /\ pc = "rollback"
  /\ IF db.sps = <<>>
     THEN /\ db' = db
          /\ IF Fixed THEN pc' = "unrecoverable" /\ flagged' = TRUE
                      ELSE pc' = "panic" /\ flagged' = flagged
     ELSE LET sp == db.sps[1]
              reaches == Count(sp.blocks) <= reorg[1] - reorg[2] + 1 IN
          /\ db' = [blocks |-> sp.blocks, lastSp |-> sp.lastSp, sps |-> <<sp>>]
          /\ IF Fixed /\ ~reaches THEN pc' = "unrecoverable" /\ flagged' = TRUE
                                  ELSE pc' = "retry" /\ flagged' = flagged
  /\ UNCHANGED <<node, nextId, forks, crashes, uh, pend, unc, final, reorg>>

\* Index::update returns: Ok(()) when the fetcher has no more blocks and nothing is pending
\* (or after the last commit), Err(unrecoverable) after a reorg that cannot be undone
ReturnsOk == pc = "ok" \/ (NoMoreBlocks /\ unc = 0)
UpdateEnd ==
  /\ ReturnsOk \/ pc = "unrecoverable"
  /\ pc' = "idle"
  /\ UNCHANGED <<node, nextId, forks, crashes, db, uh, pend, unc, final, reorg, flagged>>

\* ---- faults
Crash ==
  /\ pc \notin {"idle", "down", "panic"} /\ crashes < MaxCrashes
  /\ pc' = "down" /\ crashes' = crashes + 1
  /\ pend' = <<>> /\ unc' = 0 /\ final' = FALSE /\ flagged' = FALSE
  /\ UNCHANGED <<node, nextId, forks, db, uh, reorg>>

Reopen ==
  /\ pc = "down"
  /\ pc' = "idle"
  /\ UNCHANGED <<node, nextId, forks, crashes, db, uh, pend, unc, final, reorg, flagged>>

Updater == UpdateBegin \/ IndexBlock \/ DetectReorg \/ CommitMain \/ SpDelete \/ SpCreate
           \/ HandleReorg \/ UpdateEnd \/ Reopen
Environment == NodeMine \/ (\E d \in 1..MaxForkDepth : NodeFork(d)) \/ Crash
Next == Updater \/ Environment

Spec == Init /\ [][Next]_vars /\ WF_vars(Updater)

\* ---------------------------------------------------------------- properties
IsPrefixOf(a, b) == Len(a) <= Len(b) /\ SubSeq(b, 1, Len(a)) = a

\* C12 / C14: when update returns Ok the index holds exactly the node's best chain
QuiescentAgrees == ReturnsOk => db.blocks = node

\* C14: a reorg reported unrecoverable is flagged in the status
UnrecoverableFlagged == pc = "unrecoverable" => flagged

\* C14: the rollback for Recoverable{height, depth} restores a state at or below the fork point
\* (violated by the unrepaired code: the savepoint phase is arbitrary, see DESIGN 6.1)
RollbackCoversFork == pc = "retry" => Count(db.blocks) <= reorg[1] - reorg[2] + 1

\* C14: handle_reorg never finds the savepoint list empty
NoPanic == pc # "panic"

\* C13: whatever is durable is a chain the node once had as a prefix of its best chain at commit
\* time -- here: savepoints are snapshots of earlier durable states, at most MaxSavepoints of them
SavepointsBounded == Len(db.sps) <= MaxSavepoints
SavepointsAreSnapshots == \A i \in 1..Len(db.sps) : Len(db.sps[i].blocks) <= Len(db.blocks) \/ pc = "rollback"

\* C12 / C13 / C14 liveness: every update call terminates
Terminates == (pc = "fetch") ~> (pc \in {"idle", "panic", "down"})
\* C13: after a crash the index is reopened and a later update brings it to the node's tip
Recovers == (pc = "down") ~> (pc \in {"ok", "unrecoverable", "panic"} \/ pc = "idle")
=============================================================================
