SPECIFICATION Spec
CONSTANTS
  CommitInterval = 2
  SavepointInterval = 4
  MaxSavepoints = 3
  MaxHeight = 13
  MaxForks = 2
  MaxForkDepth = 10
  MaxCrashes = 1
  UseHeaders = FALSE
  Fixed = TRUE
INVARIANTS QuiescentAgrees UnrecoverableFlagged NoPanic SavepointsBounded
PROPERTIES Terminates
CHECK_DEADLOCK FALSE
