----------------------------- MODULE WalletRunes -----------------------------
(* C22 / C23: how the wallet builds rune transactions (src/wallet.rs
   create_unsigned_send_or_burn_runes_transaction, src/subcommand/wallet/split.rs
   Split::build_transaction), step for step, and what the rune protocol
   (RuneRules) then does with the transaction.

   A wallet inventory is the sequence, in outpoint order, of the wallet's runic
   outputs that hold no inscription:  [o |-> label, runes |-> (rune -> amount > 0)].
   Runes are integers 1..n in the order of their names (the iteration order of the
   wallet's BTreeMap<Rune, _>); IdOf(r) is the rune id, whose order decides the
   order of edicts in the runestone.

   An unfunded transaction is
     [ok, err, ins: Seq(label), outs: Seq("opret" | "wallet" | "d<i>"),
      stone: BOOLEAN, edicts: Seq([id, amount, output])]
   The node then appends cardinal inputs and one "wallet" change output at the end. *)
EXTENDS RuneRules, SequencesExt, TLC

Reject(e) == [ok |-> FALSE, err |-> e, ins |-> <<>>, outs |-> <<>>, stone |-> FALSE, edicts |-> <<>>]
DestName(i) == "d" \o ToString(i)

\* ---------------------------------------------------------------- send / burn
RECURSIVE SelSend(_, _, _, _, _, _)
SelSend(inv, k, r, amount, ins, bal) ==
  IF k > Len(inv) THEN [ins |-> ins, bal |-> bal]
  ELSE IF Get(inv[k].runes, r) > 0
       THEN LET b2 == AddAll(bal, inv[k].runes)
                i2 == Append(ins, inv[k].o)
            IN IF Get(b2, r) >= amount THEN [ins |-> i2, bal |-> b2]
               ELSE SelSend(inv, k + 1, r, amount, i2, b2)
       ELSE SelSend(inv, k + 1, r, amount, ins, bal)

\* rejectZero = TRUE is the code as it is; FALSE reproduces the flaw recorded as C22-zero-means-all
SendOrBurn(inv, IdOf(_), r, amount, burn, rejectZero) ==
  IF rejectZero /\ amount = 0 THEN Reject("zero")
  ELSE LET s == SelSend(inv, 1, r, amount, <<>>, <<>>)
           have == Get(s.bal, r)
           change == have > amount \/ Cardinality(DOMAIN s.bal) > 1
       IN IF have < amount THEN Reject("insufficient")
          ELSE [ok |-> TRUE, err |-> "", ins |-> s.ins,
                outs |-> IF burn THEN (IF change THEN <<"opret", "wallet">> ELSE <<"opret">>)
                         ELSE (IF change THEN <<"opret", "wallet", "d1">> ELSE <<"d1">>),
                stone |-> burn \/ change,
                edicts |-> IF burn THEN << [id |-> IdOf(r), amount |-> amount, output |-> 0] >>
                           ELSE IF change THEN << [id |-> IdOf(r), amount |-> amount, output |-> 2] >>
                           ELSE <<>>]

\* ---------------------------------------------------------------- split
\* splits: Seq(rune -> amount); RuneSeq(f): the runes of f in ascending order
RuneSeq(f) == SetToSortSeq(DOMAIN f, <)
RECURSIVE SumSplits(_, _)
SumSplits(splits, k) == IF k > Len(splits) THEN <<>> ELSE AddAll(splits[k], SumSplits(splits, k + 1))
\* AddAll keeps zero entries; a zero amount is rejected before the sum is used

\* first rune (ascending) that is still short and that the output holds; 0 if none
FirstWanted(required, bal, runes) ==
  LET c == {r \in DOMAIN required : Get(bal, r) < required[r] /\ Get(runes, r) > 0} IN
  IF c = {} THEN 0 ELSE Min(c)

RECURSIVE SelSplit(_, _, _, _, _)
SelSplit(inv, k, required, ins, bal) ==
  IF k > Len(inv) THEN [ins |-> ins, bal |-> bal]
  ELSE IF FirstWanted(required, bal, inv[k].runes) # 0
       THEN SelSplit(inv, k + 1, required, Append(ins, inv[k].o), AddAll(bal, inv[k].runes))
       ELSE SelSplit(inv, k + 1, required, ins, bal)

RECURSIVE SplitEdicts(_, _, _, _)
SplitEdicts(splits, IdOf(_), base, k) ==
  IF k > Len(splits) THEN <<>>
  ELSE LET rs == RuneSeq(splits[k]) IN
       [j \in 1..Len(rs) |-> [id |-> IdOf(rs[j]), amount |-> splits[k][rs[j]], output |-> k - 1 + base]]
       \o SplitEdicts(splits, IdOf, base, k + 1)

Split(inv, IdOf(_), splits) ==
  IF splits = <<>> THEN Reject("nooutputs")
  ELSE IF \E k \in 1..Len(splits) : \E r \in DOMAIN splits[k] : splits[k][r] = 0 THEN Reject("zero")
  ELSE LET required == SumSplits(splits, 1)
           s == SelSplit(inv, 1, required, <<>>, <<>>)
           change == \E r \in DOMAIN s.bal : s.bal[r] > Get(required, r)
           base == IF change THEN 2 ELSE 1
       IN IF \E r \in DOMAIN required : Get(s.bal, r) < required[r] THEN Reject("insufficient")
          ELSE [ok |-> TRUE, err |-> "", ins |-> s.ins,
                outs |-> (IF change THEN <<"opret", "wallet">> ELSE <<"opret">>)
                         \o [k \in 1..Len(splits) |-> DestName(k)],
                stone |-> TRUE,
                edicts |-> SplitEdicts(splits, IdOf, base, 1)]

\* ---------------------------------------------------------------- the rune protocol applied to a transaction
\* bal: label -> (rune id -> amount) for the inputs;  outs as above (plus "other")
AsRuneTx(ins, outs, stone, edicts, pointer) ==
  [ins |-> ins, kinds |-> [i \in 1..Len(outs) |-> IF outs[i] = "opret" THEN "opret" ELSE "pay"],
   outLabels |-> [i \in 1..Len(outs) |-> "new:" \o ToString(i - 1)],
   art |-> IF stone THEN "stone" ELSE "none", edicts |-> edicts, etch |-> <<>>, mint |-> NoId,
   pointer |-> pointer, label |-> "new"]
Ledger(bal, ids) == [bal |-> bal, ent |-> [i \in ids |-> [burned |-> 0]], names |-> {}, nrunes |-> 0, reserved |-> 0]
Effect(bal, ids, ins, outs, stone, edicts, pointer) ==
  ApplyRuneTx(Ledger(bal, ids), AsRuneTx(ins, outs, stone, edicts, pointer), 100, 1, TRUE)

\* ---------------------------------------------------------------- the C22 clauses, on what each output received
\* got: Seq(rune id -> amount) per output; burned: rune id -> amount; inTotal: rune id -> amount of the spent inputs
\* want: Seq(rune id -> amount) per recipient d1..dn; wantBurn: rune id -> amount
SumWhere(got, outs, P(_)) ==
  LET idx == {i \in 1..Len(outs) : P(outs[i])} IN
  [r \in UNION {DOMAIN got[i] : i \in idx} |-> FoldSet(LAMBDA i, acc : acc + Get(got[i], r), 0, idx)]
DestIdx(outs, k) == {i \in 1..Len(outs) : outs[i] = DestName(k)}
RecipientsExact(got, outs, want) ==
  \A k \in 1..Len(want) :
    /\ Cardinality(DestIdx(outs, k)) = 1
    /\ Pos(got[CHOOSE i \in DestIdx(outs, k) : TRUE]) = Pos(want[k])
BurnExact(burned, wantBurn) == Pos(burned) = Pos(wantBurn)
ChangeReturned(got, outs, inTotal, want, wantBurn) ==
  LET toWallet == SumWhere(got, outs, LAMBDA c : c = "wallet")
      asked == AddAll(SumSplits(want, 1), wantBurn)
  IN \A r \in (DOMAIN inTotal) \cup (DOMAIN toWallet) : Get(toWallet, r) + Get(asked, r) = Get(inTotal, r)
NothingElsewhere(got, outs) == \A i \in 1..Len(outs) : outs[i] \in {"opret", "other"} => Pos(got[i]) = <<>>
=============================================================================
