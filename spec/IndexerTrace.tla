---------------------------- MODULE IndexerTrace ----------------------------
(* Strict replay of recorded protocol events against the actions of Indexer.tla
   (the implementation-shaped model that TLC checks exhaustively).  Every event
   of the guarded tracer must be explained by the corresponding action with the
   logged arguments; the durable block count of the model is compared with the
   real index after every update, reopen and crash.  A mismatch means the code
   no longer follows the model (MODEL-DRIFT) -- or, for the durable counts after
   a crash, that C13 is violated.

   All scenarios of one trace file use the same settings (the CONSTANTS).       *)
EXTENDS Indexer, Json, IOUtils

Rec == ndJsonDeserialize(IOEnv.TRACE)
VARIABLE l
tvars == <<vars, l>>

Chk(name, cond, info) == IF cond THEN TRUE ELSE PrintT(<<"FAIL", name, "line", l, info>>) /\ FALSE

Fresh0 ==
  /\ node' = <<"g">> /\ nextId' = 0 /\ forks' = 0 /\ crashes' = 0
  /\ db' = [blocks |-> <<>>, lastSp |-> 0, sps |-> <<>>]
  /\ pc' = "idle" /\ uh' = 0 /\ pend' = <<>> /\ unc' = 0 /\ final' = FALSE /\ reorg' = <<0, 0>> /\ flagged' = FALSE

TraceInit ==
  /\ l = 1
  /\ node = <<"g">> /\ nextId = 0 /\ forks = 0 /\ crashes = 0
  /\ db = [blocks |-> <<>>, lastSp |-> 0, sps |-> <<>>]
  /\ pc = "idle" /\ uh = 0 /\ pend = <<>> /\ unc = 0 /\ final = FALSE /\ reorg = <<0, 0>> /\ flagged = FALSE

Env == UNCHANGED <<nextId, forks, crashes, db, pc, uh, pend, unc, final, reorg, flagged>>
Skip == UNCHANGED vars

TraceNext ==
  /\ l <= Len(Rec)
  /\ LET r == Rec[l] IN
     CASE r.e = "Reset" -> Fresh0
       [] r.e = "Block" -> /\ Chk("node.idle", pc = "idle", pc) /\ node' = Append(node, r.id) /\ Env
       [] r.e = "Pop" -> /\ Chk("node.idle", pc = "idle", pc) /\ node' = SubSeq(node, 1, Len(node) - r.k) /\ Env
       [] r.e = "UpdateBegin" -> /\ Chk("UpdateBegin.enabled", pc \in {"idle", "retry"}, pc)
                                 /\ UpdateBegin /\ Chk("UpdateBegin.height", uh' = r.height, <<uh', r.height>>)
       [] r.e = "BlockIndexed" -> /\ Chk("BlockIndexed.enabled", pc = "fetch" /\ uh < Len(node) /\ ParentOk, <<pc, uh, Len(node)>>)
                                  /\ IndexBlock
                                  /\ Chk("BlockIndexed.args", r.height = uh /\ node[uh + 1] = r.id, <<r.height, uh, r.id>>)
       [] r.e = "ReorgDetected" -> /\ Chk("ReorgDetected.enabled", pc = "fetch" /\ uh < Len(node) /\ ~ParentOk, <<pc, uh>>)
                                   /\ DetectReorg
                                   /\ Chk("ReorgDetected.class",
                                          IF r.recoverable THEN pc' = "rollback" /\ reorg' = <<r.height, r.depth>>
                                          ELSE pc' = "unrecoverable", <<r, pc', reorg'>>)
       [] r.e = "CommitMain" -> /\ Chk("CommitMain.enabled", pc = "commit" \/ (NoMoreBlocks /\ unc > 0), <<pc, uh, unc, Len(node)>>)
                                /\ CommitMain
                                /\ Chk("CommitMain.height", Len(db'.blocks) = r.height, <<Len(db'.blocks), r.height>>)
       [] r.e = "SavepointDelete" -> /\ Chk("SavepointDelete.enabled", pc = "sp_delete", pc) /\ SpDelete
       [] r.e = "SavepointCreate" -> /\ Chk("SavepointCreate.enabled", pc = "sp_create", pc) /\ SpCreate
                                     /\ Chk("SavepointCreate.height", db'.lastSp = r.height, <<db'.lastSp, r.height>>)
       [] r.e = "Rollback" -> /\ Chk("Rollback.enabled", pc = "rollback", pc) /\ HandleReorg
                              /\ Chk("Rollback.count", Len(db'.blocks) = r.count, <<Len(db'.blocks), r.count>>)
       [] r.e = "Update" ->
            /\ Chk("Update.enabled",
                   CASE r.result = "ok" -> ReturnsOk
                     [] r.result = "unrecoverable" -> pc = "unrecoverable"
                     [] OTHER -> FALSE, <<r.result, pc, uh, unc, Len(node)>>)
            /\ UpdateEnd
            /\ Chk("Update.count", r.count = Len(db.blocks) /\ r.flagged = flagged, <<r.count, Len(db.blocks), r.flagged, flagged>>)
       [] r.e = "Reopen" -> /\ Chk("Reopen.count", r.count = Len(db.blocks), <<r.count, Len(db.blocks)>>)
                            /\ flagged' = FALSE
                            /\ UNCHANGED <<node, nextId, forks, crashes, db, pc, uh, pend, unc, final, reorg>>
       [] r.e = "Crash" ->
            \* the child died (or returned) wherever it was; the parent reopened the index
            /\ Chk("C13.durable", r.count = Len(db.blocks), <<"observed", r.count, "model", Len(db.blocks), r.point, r.occ>>)
            /\ pc' = "idle" /\ pend' = <<>> /\ unc' = 0 /\ final' = FALSE /\ flagged' = FALSE
            /\ UNCHANGED <<node, nextId, forks, crashes, db, uh, reorg>>
       [] r.e = "Digest" -> /\ Chk("Digest.count", pc # "idle" \/ r.count = Len(db.blocks), <<r.count, Len(db.blocks)>>) /\ Skip
       [] OTHER -> Skip
  /\ l' = l + 1

TraceSpec == TraceInit /\ [][TraceNext]_tvars

Accepted ==
  /\ PrintT(<<"MATCHED", TLCGet("stats").diameter - 1, "OF", Len(Rec)>>)
  /\ TLCGet("stats").diameter - 1 = Len(Rec)
=============================================================================
