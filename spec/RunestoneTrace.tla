--------------------------- MODULE RunestoneTrace ---------------------------
(* C25 conformance: {f: "decipher", ints, nOut, obs} -- the real Runestone::decipher on a
   transaction whose payload encodes `ints` must return exactly Decipher(ints, nOut);
   {f: "payload", cls, obs} -- script-level classes; {f: "roundtrip", stone, back} --
   decipher(encipher(stone)) is the stone with edicts in rune-id order.          *)
EXTENDS Runestone, TLC, Json, IOUtils
Rec == ndJsonDeserialize(IOEnv.TRACE)
VARIABLE l
Chk(name, cond, info) == IF cond THEN TRUE ELSE PrintT(<<"FAIL", name, "line", l, info>>) /\ FALSE
IdLess(a, b) == Lt(a.block, b.block) \/ (a.block = b.block /\ Lt(a.tx, b.tx))
RECURSIVE Insert(_, _)
Insert(sorted, e) == IF sorted = <<>> THEN <<e>>
                     ELSE IF IdLess(e, Head(sorted)) THEN <<e>> \o sorted ELSE <<Head(sorted)>> \o Insert(Tail(sorted), e)
RECURSIVE SortEd(_)
SortEd(es) == IF es = <<>> THEN <<>> ELSE Insert(SortEd(SubSeq(es, 1, Len(es) - 1)), es[Len(es)])
Init == l = 1
Next == /\ l <= Len(Rec)
        /\ LET r == Rec[l] IN
           CASE r.f = "decipher" ->
                  /\ Chk("C25.total", r.obs.kind # "panic", r)
                  /\ Chk("C25.decipher", r.obs = Decipher(r.ints, r.nOut), <<"ints", r.ints, "nOut", r.nOut, "obs", r.obs, "spec", Decipher(r.ints, r.nOut)>>)
             [] r.f = "payload" ->
                  Chk("C25.payload",
                      CASE r.cls = "none" -> r.obs.kind = "none"
                        [] r.cls = "opcode" -> r.obs.kind = "ceno" /\ r.obs.flaw = "opcode" /\ ~r.obs.mint.p /\ ~r.obs.rune.p
                        [] r.cls = "invalid-script" -> r.obs.kind = "ceno" /\ r.obs.flaw = "invalid-script" /\ ~r.obs.mint.p /\ ~r.obs.rune.p
                        [] r.cls = "varint" -> r.obs.kind = "ceno" /\ r.obs.flaw = "varint" /\ ~r.obs.mint.p /\ ~r.obs.rune.p
                        [] OTHER -> r.obs.kind # "panic", r)
             [] r.f = "roundtrip" ->
                  Chk("C25.roundtrip", r.back.kind = "stone" /\ r.back.edicts = SortEd(r.stone.edicts) /\ r.back.mint = r.stone.mint
                                       /\ r.back.pointer = r.stone.pointer /\ r.back.etching = r.stone.etching, r)
             [] OTHER -> TRUE
        /\ l' = l + 1
Spec == Init /\ [][Next]_l
Accepted ==
  /\ PrintT(<<"MATCHED", TLCGet("stats").diameter - 1, "OF", Len(Rec)>>)
  /\ TLCGet("stats").diameter - 1 = Len(Rec)
=============================================================================
