------------------------------ MODULE RuneModel ------------------------------
(* C08 / C09 / C10, level A: the rune rules of RuneRules.tla -- the reference that
   LedgerTrace folds -- explored over every sequence of up to MaxTx transactions
   drawn from a small alphabet (spend any runic outputs; one or two outputs, one
   possibly OP_RETURN; runestone, cenotaph or nothing; edicts with amounts 0 / small /
   large to any output incl. "all outputs"; pointers; etchings with and without
   premine and terms; mints of existing and missing runes).

   Conservation   for every rune: balances + burned = premine + mints x amount
   NoZeroBalance  no stored balance is zero
   MintsBounded   a rune is never minted more often than its cap
   OnlyOpenMints  the mint count only grows while the terms are open
   BurnOnly       burned amounts never decrease                                *)
EXTENDS RuneRules, SequencesExt, TLC

CONSTANTS MaxTx, Amts, MaxEdicts

VARIABLES S, n, last
vars == <<S, n, last>>

Names == <<"AAAA", "BBBB", "CCCC", "DDDD", "EEEE">>
Empty == [bal |-> <<>>, ent |-> <<>>, names |-> {}, nrunes |-> 0, reserved |-> 0]
Init == S = Empty /\ n = 0 /\ last = <<>>

Ids == DOMAIN S.ent
KindSeqs == { <<"pay">>, <<"opret">>, <<"pay", "pay">>, <<"opret", "pay">>, <<"pay", "opret">> }
EdictSet(nouts) == [id : Ids \cup {NoId}, amount : Amts \cup {0}, output : 0..nouts]
EdictSeqs(nouts) == {<<>>} \cup {<<e>> : e \in EdictSet(nouts)}
                    \cup (IF MaxEdicts >= 2 THEN {<<e, f>> : e \in EdictSet(nouts), f \in EdictSet(nouts)} ELSE {})
EtchBase == [nameClass |-> "ok", name |-> Names[n + 1], premine |-> 3, hasTerms |-> FALSE,
             cap |-> NN, amount |-> NN, hs |-> NN, he |-> NN, os |-> NN, oe |-> NN]
Etchings == { <<>>,
              EtchBase,
              [EtchBase EXCEPT !.premine = 0, !.hasTerms = TRUE, !.cap = 2, !.amount = 1],
              [EtchBase EXCEPT !.premine = 1, !.hasTerms = TRUE, !.cap = 1, !.amount = 3, !.os = 1, !.oe = 3],
              [EtchBase EXCEPT !.nameClass = "below"] }
InSets == {X \in SUBSET (DOMAIN S.bal) : Cardinality(X) <= 2}

Tx(ins, kinds, art, edicts, etch, mint, pointer) ==
  [ins |-> SetToSeq(ins), kinds |-> kinds, outLabels |-> [i \in 1..Len(kinds) |-> <<n + 1, i>>],
   art |-> art, edicts |-> edicts, etch |-> etch, mint |-> mint, pointer |-> pointer, label |-> <<n + 1, 0>>]

Step ==
  /\ n < MaxTx
  /\ \E ins \in InSets : \E kinds \in KindSeqs : \E art \in {"none", "stone", "ceno"} :
     \E etch \in (IF art = "none" THEN {<<>>} ELSE Etchings) :
     \E mint \in (IF art = "none" THEN {NoId} ELSE Ids \cup {NoId}) :
     \E pointer \in (IF art = "stone" THEN {NN} \cup 0..(Len(kinds) - 1) ELSE {NN}) :
     \E edicts \in (IF art = "stone" THEN EdictSeqs(Len(kinds)) ELSE {<<>>}) :
       LET tx == Tx(ins, kinds, art, edicts, etch, mint, pointer)
           r == ApplyRuneTx(S, tx, n + 1, 1, TRUE)
       IN /\ S' = [bal |-> r.bal, ent |-> r.ent, names |-> r.names, nrunes |-> r.nrunes, reserved |-> r.reserved]
          /\ last' = [prev |-> S, h |-> n + 1, mint |-> mint]
  /\ n' = n + 1
Spec == Init /\ [][Step]_vars

SumOver(id) == FoldSet(LAMBDA o, acc : acc + Get(S.bal[o], id), 0, DOMAIN S.bal)
Conservation == \A id \in Ids : SumOver(id) + S.ent[id].burned = S.ent[id].premine + S.ent[id].mints * Amount(S.ent[id])
NoZeroBalance == \A o \in DOMAIN S.bal : S.bal[o] # <<>> /\ \A id \in DOMAIN S.bal[o] : S.bal[o][id] > 0 /\ id \in Ids
MintsBounded == \A id \in Ids : S.ent[id].mints <= Cap(S.ent[id])
OnlyOpenMints == last # <<>> => \A id \in DOMAIN last.prev.ent :
                    S.ent[id].mints > last.prev.ent[id].mints =>
                       /\ S.ent[id].mints = last.prev.ent[id].mints + 1
                       /\ last.mint = id
                       /\ Mintable(last.prev.ent[id], last.h)
BurnOnly == last # <<>> => \A id \in DOMAIN last.prev.ent : S.ent[id].burned >= last.prev.ent[id].burned
IdsAreEtchings == \A id \in Ids : id[1] \in 1..n /\ S.ent[id].block = id[1]
=============================================================================
