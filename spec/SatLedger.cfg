SPECIFICATION Spec
CONSTANTS
  S = 2
  MaxBlocks = 2
  MaxTx = 1
  MaxVal = 2
INVARIANTS Refines Partition ValueSum NormSame LookupSame
CHECK_DEADLOCK FALSE
