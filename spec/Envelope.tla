------------------------------- MODULE Envelope -------------------------------
(* C27: inscription envelopes.  Two layers:

   1. the instruction automaton that finds envelopes in a tapscript
      (OP_FALSE OP_IF "ord" ... OP_ENDIF; push-number opcodes are accepted as
      one-byte pushes and flagged; a stuttered OP_FALSE before an envelope is
      flagged), over an abstract token alphabet:
        "Z"  push of the empty byte string (OP_FALSE / OP_0)
        "IF" "ENDIF"
        "ORD" push of the protocol id
        "P"  any other data push           "N"  a push-number opcode (OP_1..OP_16, OP_1NEGATE)
        "X"  any other opcode
   2. the field layer: how an inscription's fields are laid out as pushes
      (tag, value pairs; metadata and properties in 520-byte chunks; parents
      repeated; the body after an empty tag push, in 520-byte chunks) and read
      back (first value per tag, concatenation for chunked tags, duplicate /
      incomplete / unrecognised-even flags).                                   *)
EXTENDS Naturals, Sequences, FiniteSets

\* ---------------------------------------------------------------- layer 1
\* from_instructions: toks[i..] follows the initial Z; returns [next, stutter, env] where env = <<>> or <<record>>
RECURSIVE Body(_, _, _, _)
Body(toks, i, payload, pushnum) ==
  IF i > Len(toks) THEN [next |-> i, ok |-> FALSE, payload |-> <<>>, pushnum |-> FALSE]
  ELSE IF toks[i] = "ENDIF" THEN [next |-> i + 1, ok |-> TRUE, payload |-> payload, pushnum |-> pushnum]
  ELSE IF toks[i] = "N" THEN Body(toks, i + 1, Append(payload, "N"), TRUE)
  ELSE IF toks[i] \in {"Z", "P", "ORD"} THEN Body(toks, i + 1, Append(payload, toks[i]), pushnum)
  ELSE [next |-> i + 1, ok |-> FALSE, payload |-> <<>>, pushnum |-> FALSE]      \* IF or X: abandoned

PeekZ(toks, i) == i <= Len(toks) /\ toks[i] = "Z"

FromInstructions(toks, i) ==
  IF ~(i <= Len(toks) /\ toks[i] = "IF") THEN [next |-> i, stutter |-> PeekZ(toks, i), found |-> FALSE, payload |-> <<>>, pushnum |-> FALSE]
  ELSE IF ~(i + 1 <= Len(toks) /\ toks[i + 1] = "ORD")
       THEN [next |-> i + 1, stutter |-> PeekZ(toks, i + 1), found |-> FALSE, payload |-> <<>>, pushnum |-> FALSE]
  ELSE LET b == Body(toks, i + 2, <<>>, FALSE) IN
       [next |-> b.next, stutter |-> FALSE, found |-> b.ok, payload |-> b.payload, pushnum |-> b.pushnum]

\* from_tapscript: the list of envelopes [payload, pushnum, stutter] in script order
RECURSIVE Scan(_, _, _)
Scan(toks, i, stuttered) ==
  IF i > Len(toks) THEN <<>>
  ELSE IF toks[i] # "Z" THEN Scan(toks, i + 1, stuttered)
  ELSE LET r == FromInstructions(toks, i + 1) IN
       IF r.found
       THEN << [payload |-> r.payload, pushnum |-> r.pushnum, stutter |-> stuttered] >> \o Scan(toks, r.next, stuttered)
       ELSE Scan(toks, r.next, r.stutter)
ParseScript(toks) == Scan(toks, 1, FALSE)

\* ---------------------------------------------------------------- layer 2
CHUNK == 520
Chunks(n) == IF n = 0 THEN 0 ELSE (n + CHUNK - 1) \div CHUNK
\* number of data pushes (after "ord") that an inscription with the given field lengths produces;
\* an absent field has length 0 (ord never writes empty values), parents is a count
NPushes(i) ==
  2 * Cardinality({t \in {"ct", "ce", "mp", "dl", "pt", "rn", "pe"} : i[t] > 0})
  + 2 * i.parents + 2 * Chunks(i.md) + 2 * Chunks(i.pr)
  + (IF i.body > 0 THEN 1 + Chunks(i.body) ELSE 0)
\* flags the parser reports for a script built by ord
DupExpected(i) == i.parents >= 2 \/ Chunks(i.md) >= 2 \/ Chunks(i.pr) >= 2
=============================================================================
