SPECIFICATION Spec
CONSTANTS
  CommitInterval = 3
  SavepointInterval = 3
  MaxSavepoints = 2
  MaxHeight = 11
  MaxForks = 1
  MaxForkDepth = 6
  MaxCrashes = 1
  UseHeaders = FALSE
  Fixed = TRUE
INVARIANTS QuiescentAgrees UnrecoverableFlagged NoPanic SavepointsBounded
PROPERTIES Terminates
CHECK_DEADLOCK FALSE
