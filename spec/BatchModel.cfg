SPECIFICATION Spec
CONSTANTS
  MaxParents = 2
  MaxN = 3
  Vals = {1, 2, 5}
  Fee = 1
  RunePostage = 3
INVARIANTS ReportedIsPlaced ParentsReturn Funded RuneOutputExists
CHECK_DEADLOCK FALSE
