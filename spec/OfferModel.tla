----------------------------- MODULE OfferModel -----------------------------
(* C24, level A: every PSBT of up to MaxIns inputs over the output classes below,
   every naming of an inscription, both balance outcomes, and a signing node that
   may or may not preserve each foreign signature.  Invariant: the wallet
   broadcasts only the advertised trade.                                      *)
EXTENDS Offer, TLC

CONSTANTS MaxIns

Contents == { <<>>, <<"X">>, <<"Y">>, <<"X", "Y">>, <<"Y", "X">> }
InputClasses == [owner : {"wallet", "foreign"}, insc : Contents, runes : BOOLEAN, sig : {"none", "std", "odd"}]
Claims == {"X", "Y"}

VARIABLES phase, psbt, claim, kept, outcome
vars == <<phase, psbt, claim, kept, outcome>>

Init == phase = "offer" /\ psbt = <<>> /\ claim = "" /\ kept = <<>> /\ outcome = ""

Present ==
  /\ phase = "offer"
  /\ \E n \in 1..MaxIns : \E ins \in [1..n -> InputClasses] : \E ce \in BOOLEAN : \E c \in Claims :
       /\ psbt' = [ins |-> ins, changeEq |-> ce]
       /\ claim' = c
       /\ LET d == Decide([ins |-> ins, changeEq |-> ce], c) IN
          IF d = "sign" THEN phase' = "signing" /\ outcome' = "" ELSE phase' = "done" /\ outcome' = d
  /\ UNCHANGED kept

\* the node signs; a signature it does not understand ("odd") may be replaced, others are kept
Sign ==
  /\ phase = "signing"
  /\ \E k \in [1..Len(psbt.ins) -> BOOLEAN] :
       /\ \A j \in 1..Len(psbt.ins) : psbt.ins[j].sig = "std" => k[j]
       /\ kept' = k
       /\ outcome' = AfterSign(psbt, k)
  /\ phase' = "done"
  /\ UNCHANGED <<psbt, claim>>

Next == Present \/ Sign
Spec == Init /\ [][Next]_vars

OnlyAdvertised == (phase = "done" /\ outcome = "broadcast") => Advertised(psbt, claim, kept)
\* not vacuous
SomeBroadcast == ~(phase = "done" /\ outcome = "broadcast" /\ Len(psbt.ins) = MaxIns)
=============================================================================
