SPECIFICATION Spec
CONSTANTS
  MaxParents = 2
  MaxN = 4
  Vals = {1, 2, 5, 9}
  Fee = 1
  RunePostage = 3
INVARIANTS ReportedIsPlaced ParentsReturn Funded RuneOutputExists
CHECK_DEADLOCK FALSE
