------------------------------ MODULE Runestone ------------------------------
(* C25: deciphering a runestone from the integer sequence of its payload, as the
   runes specification describes it (docs/src/runes/specification.md): fields as
   tag/value pairs, the body as delta-encoded edicts, flags, the flaw classes
   and their precedence, what a cenotaph keeps.  Integers are BigNat limb
   sequences (they range over u128).  Optional values are [p, v] records.      *)
EXTENDS BigNat, Integers

None == [p |-> FALSE, v |-> <<>>]
Some(x) == [p |-> TRUE, v |-> x]
U32 == TwoPow32
U64 == TwoPow64
U128 == TwoPow128
Even(x) == Limb(x, 1) % 2 = 0
Small(x) == IF x = <<>> THEN 0 ELSE IF Len(x) = 1 THEN x[1] ELSE IF Len(x) = 2 THEN x[1] + B * x[2] ELSE 0 - 1
N(k) == FromNat(k)

\* ---- message: fields (in order of appearance) and edicts
\* fields: Seq([t, v]);  edict: [block, tx, amount, output] (BigNats)
RECURSIVE ParseEdicts(_, _, _, _, _)
ParseEdicts(ints, i, prevB, prevT, nOut) ==
  IF i > Len(ints) THEN [flaw |-> "", edicts |-> <<>>]
  ELSE IF i + 3 > Len(ints) THEN [flaw |-> "trailing-integers", edicts |-> <<>>]
  ELSE LET bd == ints[i]
           td == ints[i + 1]
           blk == Add(prevB, bd)
           txx == IF bd = <<>> THEN Add(prevT, td) ELSE td
           idOk == Lt(bd, U64) /\ Lt(blk, U64) /\ Lt(td, U32) /\ Lt(txx, U32) /\ ~(blk = <<>> /\ txx # <<>>)
           outOk == Lt(ints[i + 3], U32) /\ Le(ints[i + 3], N(nOut))
       IN IF ~idOk THEN [flaw |-> "edict-rune-id", edicts |-> <<>>]
          ELSE IF ~outOk THEN [flaw |-> "edict-output", edicts |-> <<>>]
          ELSE LET rest == ParseEdicts(ints, i + 4, blk, txx, nOut) IN
               [flaw |-> rest.flaw,
                edicts |-> << [block |-> blk, tx |-> txx, amount |-> ints[i + 2], output |-> ints[i + 3]] >> \o rest.edicts]

RECURSIVE ParseFields(_, _, _)
ParseFields(ints, i, nOut) ==
  IF i > Len(ints) THEN [flaw |-> "", fields |-> <<>>, edicts |-> <<>>]
  ELSE IF ints[i] = <<>>                                   \* Body
       THEN LET e == ParseEdicts(ints, i + 1, <<>>, <<>>, nOut) IN [flaw |-> e.flaw, fields |-> <<>>, edicts |-> e.edicts]
  ELSE IF i + 1 > Len(ints) THEN [flaw |-> "truncated-field", fields |-> <<>>, edicts |-> <<>>]
  ELSE LET rest == ParseFields(ints, i + 2, nOut) IN
       [flaw |-> rest.flaw, fields |-> << [t |-> ints[i], v |-> ints[i + 1]] >> \o rest.fields, edicts |-> rest.edicts]

Values(fields, tag) == LET sel == SelectSeq(fields, LAMBDA f : f.t = N(tag)) IN [k \in 1..Len(sel) |-> sel[k].v]
\* remove the first n occurrences of tag
RECURSIVE Drop(_, _, _)
Drop(fields, tag, n) == IF n = 0 \/ fields = <<>> THEN fields
                        ELSE IF Head(fields).t = N(tag) THEN Drop(Tail(fields), tag, n - 1)
                        ELSE <<Head(fields)>> \o Drop(Tail(fields), tag, n)
\* Tag::take with one value and a validity predicate: [val: option, fields']
Take1(fields, tag, Valid(_)) ==
  LET vs == Values(fields, tag) IN
  IF vs # <<>> /\ Valid(vs[1]) THEN [val |-> Some(vs[1]), fields |-> Drop(fields, tag, 1)]
  ELSE [val |-> None, fields |-> fields]
Any(x) == TRUE
FitsU64(x) == Lt(x, U64)
CharOk(x) == Lt(x, N(1114112)) /\ ~(Le(N(55296), x) /\ Le(x, N(57343)))
Bit(x, k) == Limb(DivS(x, 2 ^ k).q, 1) % 2 = 1       \* k <= 2

Decipher(ints, nOut) ==
  LET m == ParseFields(ints, 1, nOut)
      fl == Take1(m.fields, 2, Any)
      flags == IF fl.val.p THEN fl.val.v ELSE <<>>
      etching == Bit(flags, 0)
      terms == etching /\ Bit(flags, 1)
      turbo == etching /\ Bit(flags, 2)
      taken == (IF etching THEN 1 ELSE 0) + (IF terms THEN 2 ELSE 0) + (IF turbo THEN 4 ELSE 0)
      restFlags == Sub(flags, N(taken))
      f1 == fl.fields
      \* etching fields
      dv == IF etching THEN Take1(f1, 1, LAMBDA x : Le(x, N(38))) ELSE [val |-> None, fields |-> f1]
      pm == IF etching THEN Take1(dv.fields, 6, Any) ELSE [val |-> None, fields |-> dv.fields]
      rn == IF etching THEN Take1(pm.fields, 4, Any) ELSE [val |-> None, fields |-> pm.fields]
      sp == IF etching THEN Take1(rn.fields, 3, LAMBDA x : Lt(x, N(134217728))) ELSE [val |-> None, fields |-> rn.fields]
      sy == IF etching THEN Take1(sp.fields, 5, CharOk) ELSE [val |-> None, fields |-> sp.fields]
      cp == IF terms THEN Take1(sy.fields, 8, Any) ELSE [val |-> None, fields |-> sy.fields]
      hs == IF terms THEN Take1(cp.fields, 12, FitsU64) ELSE [val |-> None, fields |-> cp.fields]
      he == IF terms THEN Take1(hs.fields, 14, FitsU64) ELSE [val |-> None, fields |-> hs.fields]
      am == IF terms THEN Take1(he.fields, 10, Any) ELSE [val |-> None, fields |-> he.fields]
      os == IF terms THEN Take1(am.fields, 16, FitsU64) ELSE [val |-> None, fields |-> am.fields]
      oe == IF terms THEN Take1(os.fields, 18, FitsU64) ELSE [val |-> None, fields |-> os.fields]
      \* mint: two values
      mv == Values(oe.fields, 20)
      mintOk == Len(mv) >= 2 /\ Lt(mv[1], U64) /\ Lt(mv[2], U32) /\ ~(mv[1] = <<>> /\ mv[2] # <<>>)
      f2 == IF mintOk THEN Drop(oe.fields, 20, 2) ELSE oe.fields
      pt == Take1(f2, 22, LAMBDA x : Lt(x, N(nOut)))
      f3 == pt.fields
      premine == IF pm.val.p THEN pm.val.v ELSE <<>>
      cap == IF cp.val.p THEN cp.val.v ELSE <<>>
      amount == IF am.val.p THEN am.val.v ELSE <<>>
      supplyOverflow == etching /\ (~Lt(Mul(cap, amount), U128) \/ ~Lt(Add(premine, Mul(cap, amount)), U128))
      evenLeft == \E k \in 1..Len(f3) : Even(f3[k].t)
      flaw == IF m.flaw # "" THEN m.flaw
              ELSE IF supplyOverflow THEN "supply-overflow"
              ELSE IF restFlags # <<>> THEN "unrecognized-flag"
              ELSE IF evenLeft THEN "unrecognized-even-tag"
              ELSE ""
      mint == IF mintOk THEN Some(<<mv[1], mv[2]>>) ELSE None
  IN IF flaw # ""
     THEN [kind |-> "ceno", flaw |-> flaw, mint |-> mint, rune |-> IF etching THEN rn.val ELSE None]
     ELSE [kind |-> "stone", edicts |-> m.edicts, mint |-> mint, pointer |-> pt.val,
           etching |-> IF etching
                       THEN [p |-> TRUE, divisibility |-> dv.val, premine |-> pm.val, rune |-> rn.val, spacers |-> sp.val,
                             symbol |-> sy.val, turbo |-> turbo, terms |-> terms,
                             cap |-> cp.val, amount |-> am.val, hs |-> hs.val, he |-> he.val, os |-> os.val, oe |-> oe.val]
                       ELSE [p |-> FALSE]]
=============================================================================
