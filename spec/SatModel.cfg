SPECIFICATION Spec
CONSTANTS
  H = 3
  S0 = 40
  MaxBlocks = 24
INVARIANTS ClosedFormAgrees Bijection Monotone
CHECK_DEADLOCK FALSE
