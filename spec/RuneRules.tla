------------------------------ MODULE RuneRules ------------------------------
(* The rune protocol as documented (docs/src/runes/specification.md), as pure
   operators over an abstract rune ledger:
     S.bal      outpoint -> (rune id -> amount > 0)
     S.ent      rune id  -> entry record
     S.names    set of taken rune names
     S.nrunes   number of runes etched so far
     S.reserved number of reserved names handed out
   A rune id is <<block, tx>>.  Absent optional integers are -1 (written NN).
   A transaction is presented as
     [ins: Seq(outpoint), kinds: Seq("pay"|"opret"), outLabels: Seq(outpoint),
      art: "none" | "stone" | "ceno" | "dead",
      edicts: Seq([id, amount, output]), etch: record or <<>>, mint: id or NoId,
      pointer: Int (NN = absent)]
   "ceno" is a cenotaph that keeps its mint and etched name; "dead" is one whose
   payload could not be read at all (nothing kept).                            *)
EXTENDS Integers, Sequences, FiniteSets, FiniteSetsExt

NN == 0 - 1
NoId == <<0, 0>>

Get(f, k) == IF k \in DOMAIN f THEN f[k] ELSE 0
Upd(f, k, v) == [x \in (DOMAIN f) \cup {k} |-> IF x = k THEN v ELSE f[x]]
MinOf2(a, b) == IF a <= b THEN a ELSE b
MaxOf2(a, b) == IF a >= b THEN a ELSE b
AddAll(f, g) == [r \in (DOMAIN f) \cup (DOMAIN g) |-> Get(f, r) + Get(g, r)]
Pos(f) == [r \in {x \in DOMAIN f : f[x] > 0} |-> f[r]]

\* ---- mint terms (C10)
Start(e) == LET rel == IF e.os = NN THEN NN ELSE e.block + e.os
                abs == e.hs
            IN IF rel # NN /\ abs # NN THEN MaxOf2(rel, abs)
               ELSE IF rel # NN THEN rel ELSE abs
End(e)   == LET rel == IF e.oe = NN THEN NN ELSE e.block + e.oe
                abs == e.he
            IN IF rel # NN /\ abs # NN THEN MinOf2(rel, abs)
               ELSE IF rel # NN THEN rel ELSE abs
Cap(e) == IF e.cap = NN THEN 0 ELSE e.cap
Amount(e) == IF e.amount = NN THEN 0 ELSE e.amount
Mintable(e, h) == /\ e.hasTerms
                  /\ (Start(e) = NN \/ h >= Start(e))
                  /\ (End(e) = NN \/ h < End(e))
                  /\ e.mints < Cap(e)

\* ---- unallocated runes of the inputs
RECURSIVE SumBal(_, _, _)
SumBal(ins, k, b) == IF k > Len(ins) THEN <<>>
                     ELSE LET rest == SumBal(ins, k + 1, b)
                              mine == IF ins[k] \in DOMAIN b THEN b[ins[k]] ELSE <<>>
                          IN AddAll(rest, mine)

NonOpRet(kinds) == SelectSeq([i \in 1..Len(kinds) |-> IF kinds[i] = "pay" THEN i ELSE 0],
                             LAMBDA x : x # 0)

\* st = [un: id -> amount, al: Seq(id -> amount)]
Alloc(st, id, amt, out) ==
  IF amt = 0 THEN st
  ELSE [un |-> Upd(st.un, id, st.un[id] - amt),
        al |-> [st.al EXCEPT ![out] = Upd(st.al[out], id, Get(st.al[out], id) + amt)]]

RECURSIVE AllocEach(_, _, _, _, _)
AllocEach(st, id, amt, dests, k) ==
  IF k > Len(dests) THEN st
  ELSE AllocEach(Alloc(st, id, MinOf2(amt, st.un[id]), dests[k]), id, amt, dests, k + 1)

RECURSIVE AllocSplit(_, _, _, _, _, _)
AllocSplit(st, id, q, r, dests, k) ==
  IF k > Len(dests) THEN st
  ELSE AllocSplit(Alloc(st, id, IF k <= r THEN q + 1 ELSE q, dests[k]), id, q, r, dests, k + 1)

\* e.output is 0-based; output = number of outputs means "every non-OP_RETURN output"
Edict(st, e, etchedId, kinds) ==
  LET id == IF e.id = NoId THEN etchedId ELSE e.id IN
  IF id = NoId \/ id \notin DOMAIN st.un THEN st
  ELSE IF e.output = Len(kinds)
       THEN LET d == NonOpRet(kinds) IN
            IF d = <<>> THEN st
            ELSE IF e.amount = 0
                 THEN AllocSplit(st, id, st.un[id] \div Len(d), st.un[id] % Len(d), d, 1)
                 ELSE AllocEach(st, id, e.amount, d, 1)
       ELSE Alloc(st, id, IF e.amount = 0 THEN st.un[id] ELSE MinOf2(e.amount, st.un[id]), e.output + 1)

RECURSIVE Edicts(_, _, _, _)
Edicts(st, es, etchedId, kinds) ==
  IF es = <<>> THEN st ELSE Edicts(Edict(st, Head(es), etchedId, kinds), Tail(es), etchedId, kinds)

\* edicts are processed in rune-id order (stable)
IdLess(a, b) == a[1] < b[1] \/ (a[1] = b[1] /\ a[2] < b[2])
RECURSIVE InsertEdict(_, _)
InsertEdict(sorted, e) == IF sorted = <<>> THEN <<e>>
                          ELSE IF IdLess(e.id, Head(sorted).id) THEN <<e>> \o sorted
                          ELSE <<Head(sorted)>> \o InsertEdict(Tail(sorted), e)
RECURSIVE SortEdicts(_)
SortEdicts(es) == IF es = <<>> THEN <<>>
                  ELSE InsertEdict(SortEdicts(SubSeq(es, 1, Len(es) - 1)), es[Len(es)])

\* ---- etching validity (C11).  nameClass: "ok" | "below" | "reserved" | "none" (unnamed)
EtchResult(S, tx, h, k, commitOk) ==
  IF tx.art \in {"none", "dead"} \/ tx.etch = <<>> THEN [ok |-> FALSE, name |-> "", reserved |-> FALSE]
  ELSE IF tx.etch.nameClass = "none"
       THEN (IF tx.art = "stone" THEN [ok |-> TRUE, name |-> "", reserved |-> TRUE]
             ELSE [ok |-> FALSE, name |-> "", reserved |-> FALSE])
       ELSE [ok |-> /\ tx.etch.nameClass = "ok"
                    /\ tx.etch.name \notin S.names
                    /\ commitOk,
             name |-> tx.etch.name, reserved |-> FALSE]

NewEntry(tx, h, n, er) ==
  IF tx.art = "ceno"
  THEN [block |-> h, premine |-> 0, mints |-> 0, burned |-> 0, hasTerms |-> FALSE,
        cap |-> NN, amount |-> NN, hs |-> NN, he |-> NN, os |-> NN, oe |-> NN,
        num |-> n, name |-> er.name, reservedName |-> er.reserved, etx |-> tx.label]
  ELSE [block |-> h, premine |-> MaxOf2(tx.etch.premine, 0), mints |-> 0, burned |-> 0,
        hasTerms |-> tx.etch.hasTerms,
        cap |-> tx.etch.cap, amount |-> tx.etch.amount, hs |-> tx.etch.hs, he |-> tx.etch.he,
        os |-> tx.etch.os, oe |-> tx.etch.oe,
        num |-> n, name |-> er.name, reservedName |-> er.reserved, etx |-> tx.label]

\* ---- one transaction at height h, position k in its block
ApplyRuneTx(S, tx, h, k, commitOk) ==
  LET un0 == SumBal(tx.ins, 1, S.bal)
      hasArt == tx.art \in {"stone", "ceno"}
      mintOk == hasArt /\ tx.mint # NoId /\ tx.mint \in DOMAIN S.ent /\ Mintable(S.ent[tx.mint], h)
      ent1 == IF mintOk THEN [S.ent EXCEPT ![tx.mint].mints = @ + 1] ELSE S.ent
      un1 == IF mintOk THEN Upd(un0, tx.mint, Get(un0, tx.mint) + Amount(S.ent[tx.mint])) ELSE un0
      er == EtchResult(S, tx, h, k, commitOk)
      eid == IF er.ok THEN <<h, k>> ELSE NoId
      un2 == IF er.ok /\ tx.art = "stone"
             THEN Upd(un1, eid, Get(un1, eid) + MaxOf2(tx.etch.premine, 0)) ELSE un1
      st0 == [un |-> un2, al |-> [i \in 1..Len(tx.kinds) |-> <<>>]]
      st1 == IF tx.art = "stone" THEN Edicts(st0, SortEdicts(tx.edicts), eid, tx.kinds) ELSE st0
      ent2 == IF er.ok THEN Upd(ent1, eid, NewEntry(tx, h, S.nrunes, er)) ELSE ent1
      d == NonOpRet(tx.kinds)
      isCeno == tx.art \in {"ceno", "dead"}
      target == IF tx.art = "stone" /\ tx.pointer # NN THEN tx.pointer + 1
                ELSE IF d # <<>> THEN d[1] ELSE 0
      burnedLeft == IF isCeno \/ target = 0 THEN st1.un ELSE <<>>
      al2 == IF ~isCeno /\ target # 0
             THEN [st1.al EXCEPT ![target] = AddAll(st1.al[target], st1.un)] ELSE st1.al
      opIdx == {i \in 1..Len(tx.kinds) : tx.kinds[i] = "opret"}
      burnedOp == [r \in UNION {DOMAIN al2[i] : i \in opIdx} |->
                     FoldSet(LAMBDA i, acc : acc + Get(al2[i], r), 0, opIdx)]
      burned == Pos(AddAll(burnedLeft, burnedOp))
      insSet == {tx.ins[i] : i \in 1..Len(tx.ins)}
      keep == [o \in (DOMAIN S.bal) \ insSet |-> S.bal[o]]
      newOuts == {i \in 1..Len(tx.kinds) : tx.kinds[i] = "pay" /\ Pos(al2[i]) # <<>>}
      bal2 == [o \in (DOMAIN keep) \cup {tx.outLabels[i] : i \in newOuts} |->
                 IF o \in DOMAIN keep THEN keep[o]
                 ELSE Pos(al2[CHOOSE i \in newOuts : tx.outLabels[i] = o])]
      ent3 == [r \in DOMAIN ent2 |-> [ent2[r] EXCEPT !.burned = @ + Get(burned, r)]]
  IN [bal |-> bal2, ent |-> ent3,
      names |-> IF er.ok /\ ~er.reserved THEN S.names \cup {er.name} ELSE S.names,
      nrunes |-> IF er.ok THEN S.nrunes + 1 ELSE S.nrunes,
      reserved |-> IF er.ok /\ er.reserved THEN S.reserved + 1 ELSE S.reserved,
      \* for the event observer (C37)
      minted |-> IF mintOk THEN <<tx.mint, Amount(S.ent[tx.mint])>> ELSE <<>>,
      etched |-> eid, burnedTx |-> burned,
      allocated |-> [i \in 1..Len(tx.kinds) |-> IF tx.kinds[i] = "pay" THEN Pos(al2[i]) ELSE <<>>]]
=============================================================================
