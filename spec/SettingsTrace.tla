--------------------------- MODULE SettingsTrace ---------------------------
(* Each line: {key, kind, flag, env, file, default, result} recorded from the real
   Settings::merge (flag via Options::try_parse_from, environment map, ord.yaml).
   Values are strings; "absent" marks a source that does not mention the key;
   for kind "union" the values are sequences of ids.                         *)
EXTENDS Settings, TLC, Json, IOUtils
Rec == ndJsonDeserialize(IOEnv.TRACE)
VARIABLE l
Chk(name, cond, info) == IF cond THEN TRUE ELSE PrintT(<<"FAIL", name, "line", l, info>>) /\ FALSE
ToSet(v) == {v[i] : i \in 1..Len(v)}
Init == l = 1
Next == /\ l <= Len(Rec)
        /\ LET r == Rec[l] IN
           /\ Chk("C36.ok", r.status = "ok", r)
           /\ IF r.kind = "union"
              THEN Chk("C36.union", {r.result[i] : i \in 1..Len(r.result)}
                                    = Merge("union", {}, ToSet(r.env), ToSet(r.file), {}), r)
              ELSE Chk("C36.precedence", r.result = Merge(r.kind, r.flag, r.env, r.file, r.default), r)
        /\ l' = l + 1
Spec == Init /\ [][Next]_l
Accepted ==
  /\ PrintT(<<"MATCHED", TLCGet("stats").diameter - 1, "OF", Len(Rec)>>)
  /\ TLCGet("stats").diameter - 1 = Len(Rec)
=============================================================================
