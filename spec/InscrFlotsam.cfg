SPECIFICATION Spec
CONSTANTS
  MaxIn = 2
  MaxOut = 2
  MaxEnv = 2
  MaxVal = 1
INVARIANTS ReinscriptionsFlagged NoSpuriousFlag CleanFirst LandsWithSat
CHECK_DEADLOCK FALSE
