SPECIFICATION Spec
CONSTANTS
  NRunes = 2
  MaxOuts = 3
  MaxBal = 2
  MaxAmt = 3
  MaxSplits = 1
  MaxFund = 1
  RejectZero = TRUE
  LockFirst = TRUE
  IdOrder = "reversed"
INVARIANTS C22ZeroRejected C22Exact C23NoStrayInput
CHECK_DEADLOCK FALSE
