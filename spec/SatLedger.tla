------------------------------ MODULE SatLedger ------------------------------
(* C01 / C02, level A: the literal per-sat BIP assignment ("each output takes the
   next unassigned sats of the inputs in order; what is left goes to the
   coinbase; what the coinbase does not claim is lost") against the range-based
   ledger (module Ranges: split, never enumerate) that LedgerTrace folds as its
   reference.  Blocks are built incrementally from every choice of inputs,
   output values (fees, zero-value outputs, same-block spends) and coinbase
   claims (underpaying coinbases lose sats).

   Refines      every outpoint's ranges flatten to exactly its BIP sat sequence,
                and the lost ranges to the lost sats, in order
   Partition    every mined sat is in exactly one unspent output or lost
   ValueSum     an output holds as many sats as its value
   NormSame     normalising a range list does not change the sats it denotes
   LookupSame   OffsetOf / SatAt agree with the position in the flattened sequence *)
EXTENDS Ranges, Integers, FiniteSets, SequencesExt, FiniteSetsExt, TLC

CONSTANTS S,          \* subsidy (sats per block)
          MaxBlocks, MaxTx, MaxVal

VARIABLES height,   \* next block height
          uS,       \* outpoint -> Seq(sat)             (BIP level)
          uR,       \* outpoint -> Seq(<<start, end>>)  (range level)
          lostS, lostR,
          pend,     \* transactions of the block under construction: Seq([ins, outs])
          avail     \* outpoint -> value, spendable now (incl. outputs of pending transactions)
vars == <<height, uS, uR, lostS, lostR, pend, avail>>

\* ---- sequences of sats (BIP)
Take(s, n) == SubSeq(s, 1, n)
Drop(s, n) == SubSeq(s, n + 1, Len(s))
SatRange(a, b) == [i \in 1..(b - a) |-> a + i - 1]
RECURSIVE Flatten(_)
Flatten(rs) == IF rs = <<>> THEN <<>> ELSE SatRange(Head(rs)[1], Head(rs)[2]) \o Flatten(Tail(rs))

RECURSIVE SplitS(_, _)
SplitS(sats, vals) == IF vals = <<>> THEN [outs |-> <<>>, rest |-> sats]
                      ELSE LET r == SplitS(Drop(sats, Head(vals)), Tail(vals))
                           IN [outs |-> <<Take(sats, Head(vals))>> \o r.outs, rest |-> r.rest]

Sum(vals) == FoldSeq(LAMBDA v, acc : v + acc, 0, vals)
ValSeqs(maxSum) == {<<>>} \cup {<<a>> : a \in 0..maxSum} \cup {<<a, b>> : a \in 0..maxSum, b \in 0..maxSum}
OutSeqs(maxSum) == {v \in ValSeqs(maxSum) : Sum(v) <= maxSum /\ \A i \in 1..Len(v) : v[i] <= MaxVal}
InSeqs == {<<a>> : a \in DOMAIN avail} \cup ({<<a, b>> : a \in DOMAIN avail, b \in DOMAIN avail} \ {<<c, c>> : c \in DOMAIN avail})
InVal(ins) == FoldSeq(LAMBDA o, acc : avail[o] + acc, 0, ins)

Restr(f, D) == [x \in D |-> f[x]]
Ext(f, g) == [x \in (DOMAIN f) \cup (DOMAIN g) |-> IF x \in DOMAIN g THEN g[x] ELSE f[x]]

Init == /\ height = 0 /\ uS = <<>> /\ uR = <<>> /\ lostS = <<>> /\ lostR = <<>>
        /\ pend = <<>> /\ avail = <<>>

AddTx(ins, outs) ==
  /\ Len(pend) < MaxTx
  /\ LET txid == <<height, Len(pend) + 1>>
         newo == [o \in {<<txid, i>> : i \in 1..Len(outs)} |-> outs[o[2]]]
     IN avail' = Ext(Restr(avail, DOMAIN avail \ {ins[i] : i \in 1..Len(ins)}), newo)
  /\ pend' = Append(pend, [ins |-> ins, outs |-> outs])
  /\ UNCHANGED <<height, uS, uR, lostS, lostR>>

RECURSIVE ApplyS(_, _, _, _)
ApplyS(u, txs, k, fees) ==
  IF k > Len(txs) THEN [u |-> u, fees |-> fees]
  ELSE LET tx == txs[k]
           inS == ConcatAll([i \in 1..Len(tx.ins) |-> u[tx.ins[i]]])
           sp  == SplitS(inS, tx.outs)
           txid == <<height, k>>
           u1 == Restr(u, DOMAIN u \ {tx.ins[i] : i \in 1..Len(tx.ins)})
           u2 == Ext(u1, [o \in {<<txid, i>> : i \in 1..Len(tx.outs)} |-> sp.outs[o[2]]])
       IN ApplyS(u2, txs, k + 1, fees \o sp.rest)
RECURSIVE ApplyR(_, _, _, _)
ApplyR(u, txs, k, fees) ==
  IF k > Len(txs) THEN [u |-> u, fees |-> fees]
  ELSE LET tx == txs[k]
           inR == ConcatAll([i \in 1..Len(tx.ins) |-> u[tx.ins[i]]])
           sp  == SplitR(inR, tx.outs)
           txid == <<height, k>>
           u1 == Restr(u, DOMAIN u \ {tx.ins[i] : i \in 1..Len(tx.ins)})
           u2 == Ext(u1, [o \in {<<txid, i>> : i \in 1..Len(tx.outs)} |-> sp.outs[o[2]]])
       IN ApplyR(u2, txs, k + 1, fees \o sp.rest)

MineBlock(cb) ==
  /\ height < MaxBlocks
  /\ LET aS == ApplyS(uS, pend, 1, <<>>)
         aR == ApplyR(uR, pend, 1, <<>>)
         cS == SatRange(height * S, (height + 1) * S) \o aS.fees
         cR == << <<height * S, (height + 1) * S>> >> \o aR.fees
         spS == SplitS(cS, cb)
         spR == SplitR(cR, cb)
         txid == <<height, 0>>
         D == {<<txid, i>> : i \in 1..Len(cb)}
     IN /\ Sum(cb) <= Len(cS)
        /\ uS' = Ext(aS.u, [o \in D |-> spS.outs[o[2]]])
        /\ uR' = Ext(aR.u, [o \in D |-> spR.outs[o[2]]])
        /\ lostS' = lostS \o spS.rest
        /\ lostR' = lostR \o spR.rest
        /\ avail' = Ext(avail, [o \in D |-> cb[o[2]]])
  /\ height' = height + 1 /\ pend' = <<>>

Next == \/ \E ins \in InSeqs : \E outs \in OutSeqs(InVal(ins)) : AddTx(ins, outs)
        \/ \E cb \in OutSeqs(2 * S) : MineBlock(cb)
Spec == Init /\ [][Next]_vars

\* ---- properties (evaluated when no block is under construction)
Refines == pend = <<>> =>
             /\ DOMAIN uS = DOMAIN uR
             /\ \A o \in DOMAIN uS : Flatten(uR[o]) = uS[o]
             /\ Flatten(lostR) = lostS
Partition == pend = <<>> =>
   LET outs == SetToSeq(DOMAIN uS)
       all  == ConcatAll([i \in 1..Len(outs) |-> uS[outs[i]]]) \o lostS
   IN /\ Len(all) = height * S
      /\ ToSet(all) = 0..(height * S - 1)
ValueSum == pend = <<>> => \A o \in DOMAIN uR : Total(uR[o]) = avail[o]
NormSame == pend = <<>> => /\ \A o \in DOMAIN uR : Flatten(Norm(uR[o])) = Flatten(uR[o])
                           /\ Flatten(Norm(lostR)) = lostS
LookupSame == pend = <<>> =>
  \A o \in DOMAIN uR : \A k \in 1..Len(uS[o]) :
     /\ SatAt(uR[o], k - 1) = uS[o][k]
     /\ OffsetOf(uR[o], uS[o][k], 0) = k - 1
=============================================================================
