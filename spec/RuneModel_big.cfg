SPECIFICATION Spec
CONSTANTS
  MaxTx = 3
  Amts = {1, 5}
  MaxEdicts = 1
INVARIANTS Conservation NoZeroBalance MintsBounded OnlyOpenMints BurnOnly IdsAreEtchings
CHECK_DEADLOCK FALSE
