----------------------------- MODULE ProtoTrace -----------------------------
(* Verdict specification for the indexing-protocol family (C12, C13, C14, and
   C16 for update results): validates traces recorded by the harness from the
   real ord::Index against the *observable* contract of the protocol.

   State: the node's best chain (block ids above genesis) and `dig`, the map
   from a chain (sequence of block ids) and index flags to the digest of the
   index content (every table row except timing and commit bookkeeping).
   `dig` is a history variable across scenarios: the first observation of a
   chain binds its digest, every later observation of the same chain -- under
   another commit interval, another partition into update calls, after a
   reopen, after a crash, after a reorg, or built from scratch -- must show
   the same digest.  That is exactly "index content is a function of the
   chain", which is what C12, C13 and C14 have in common.

   PROP selects which clauses are enforced.                                  *)
EXTENDS Integers, Sequences, FiniteSets, TLC, Json, IOUtils, SequencesExt

Rec == ndJsonDeserialize(IOEnv.TRACE)
PROP == IOEnv.PROP
On(p) == PROP = p \/ PROP = "ALL"

VARIABLES l, cfg, node, dig, last, res
vars == <<l, cfg, node, dig, last, res>>

Chk(name, cond, info) == IF cond THEN TRUE ELSE PrintT(<<"FAIL", name, "line", l, info>>) /\ FALSE
ChkKF(name, cond, kf, kfname, info) ==
  IF cond THEN TRUE
  ELSE IF kf THEN PrintT(<<"KNOWN", kfname, "line", l, info>>)
  ELSE PrintT(<<"FAIL", name, "line", l, info>>) /\ FALSE

CountOk(count, ids) == (count = 0 /\ ids = <<>>) \/ count = Len(ids) + 1
IsPrefixOf(a, b) == Len(a) <= Len(b) /\ SubSeq(b, 1, Len(a)) = a
Key(chain, count) == <<cfg.flagKey, count, chain>>

\* bind-or-compare the digest of a chain
Bind(name, chain, count, d, info) ==
  IF Key(chain, count) \in DOMAIN dig
  THEN /\ Chk(name, dig[Key(chain, count)] = d,
              <<info, "chain length", Len(chain), "first seen", dig[Key(chain, count)], "now", d>>)
       /\ dig' = dig
  ELSE dig' = dig @@ (Key(chain, count) :> d)

Init == l = 1 /\ cfg = <<>> /\ node = <<>> /\ dig = <<>> /\ last = [kind |-> "none"] /\ res = <<>>

\* C13: a crashed run and its uninterrupted control (same history, Reset.pair names the pair): the k-th
\* update of both must end the same way ("continuing to index produces the same content as an
\* uninterrupted run" -- the contents themselves are compared through dig)
PairStep(r) ==
  IF On("C13") /\ cfg.pair # "" /\ r.result # "hang"
  THEN LET key == <<cfg.pair, r.k>> IN
       IF key \in DOMAIN res
       THEN /\ Chk("C13.sameAsUninterrupted", res[key] = <<r.result, r.count>>, <<key, "first", res[key], "now", <<r.result, r.count>>>>)
            /\ res' = res
       ELSE res' = res @@ (key :> <<r.result, r.count>>)
  ELSE res' = res

\* recorded finding C14-rollback-above-fork: the hang whose last rollback restored a savepoint
\* that still holds blocks above the fork point (DESIGN 6.1)
RollbackAboveFork(r) ==
  \E i \in 1..Len(r.tail) :
     r.tail[i].e = "Rollback" /\ r.tail[i].count > r.tail[i].height - r.tail[i].depth + 1

Next ==
  /\ l <= Len(Rec)
  /\ LET r == Rec[l] IN
     CASE r.e = "Reset" -> /\ cfg' = r /\ node' = <<>> /\ last' = [kind |-> "none"] /\ UNCHANGED <<dig, res>>
       [] r.e = "Block" -> /\ node' = Append(node, r.id) /\ last' = [kind |-> "node"] /\ UNCHANGED <<cfg, dig, res>>
       [] r.e = "Pop" -> /\ node' = SubSeq(node, 1, Len(node) - r.k) /\ last' = [kind |-> "node"] /\ UNCHANGED <<cfg, dig, res>>
       [] r.e = "Update" ->
            /\ (On("C14") \/ On("C12") \/ On("C13") =>
                  ChkKF("update.terminates", r.result # "hang",
                        "tail" \in DOMAIN r /\ RollbackAboveFork(r), "C14-rollback-above-fork", <<r.chain>>))
            /\ (r.result # "hang" =>
                  /\ (On("C14") \/ On("C12") \/ On("C13") \/ On("C16") =>
                        Chk("update.result", r.result \in {"ok", "unrecoverable"}, <<r.result, r.text>>))
                  /\ (r.result = "ok" =>
                        Chk("update.agrees", r.indexed = node /\ r.count = Len(node) + 1 /\ r.chain = node,
                            <<"indexed", r.indexed, "node", node>>))
                  /\ (On("C14") /\ r.result = "unrecoverable" => Chk("C14.flagged", r.flagged, r))
                  \* blocks of an abandoned branch are never kept silently
                  /\ (On("C14") /\ r.result = "ok" => Chk("C14.noStale", IsPrefixOf(r.indexed, node), r.indexed)))
            /\ last' = [kind |-> "update", result |-> r.result]
            /\ PairStep(r)
            /\ UNCHANGED <<cfg, node, dig>>
       [] r.e = "Digest" ->
            /\ Chk("digest.count", CountOk(r.count, r.indexed), r.count)
            /\ Bind("content.function-of-chain", r.indexed, r.count, r.digest, "index")
            /\ last' = [kind |-> "digest"] /\ UNCHANGED <<cfg, node, res>>
       [] r.e = "Fresh" ->
            /\ Chk("fresh.count", CountOk(r.count, r.chain), <<r.count, Len(r.chain)>>)
            /\ Bind("content.equals-from-scratch", r.chain, r.count, r.digest, "fresh")
            /\ last' = [kind |-> "fresh"] /\ UNCHANGED <<cfg, node, res>>
       [] r.e = "Reopen" -> /\ last' = [kind |-> "reopen"] /\ UNCHANGED <<cfg, node, dig, res>>
       [] r.e = "Crash" ->
            \* C13: after the crash the reopened index is at a fully committed height: the last
            \* block count made durable before the crash (or the count before the update started)
            /\ (On("C13") =>
                  \* (the committed blocks may belong to a branch the node has since abandoned)
                  /\ Chk("C13.count", CountOk(r.count, r.indexed), r)
                  \* a process killed at an arbitrary moment may have made one more commit durable than the
                  \* last one it got to report: the height is then at least the last reported one
                  /\ Chk("C13.committedHeight",
                         LET lastKnown == IF r.durable = <<>> THEN r.before ELSE r.durable[Len(r.durable)] IN
                         IF r.point = "kill" THEN r.count >= lastKnown \/ (r.durable # <<>> /\ r.count >= r.before)
                         ELSE r.count = lastKnown,
                         <<"count", r.count, "durable", r.durable, "before", r.before>>))
            /\ last' = [kind |-> "crash"] /\ UNCHANGED <<cfg, node, dig, res>>
       [] OTHER -> UNCHANGED <<cfg, node, dig, last, res>>
  /\ l' = l + 1

Spec == Init /\ [][Next]_vars

Accepted ==
  /\ PrintT(<<"MATCHED", TLCGet("stats").diameter - 1, "OF", Len(Rec)>>)
  /\ TLCGet("stats").diameter - 1 = Len(Rec)
=============================================================================
