------------------------------ MODULE SatModel ------------------------------
(* Small-scale instance of the sat numbering scheme (halving every H blocks,
   first subsidy S0) explored as a mining behaviour: the BIP definition
   "each block's sats follow the previous block's" against the closed form
   epoch-start + offset * subsidy used for lookups, the bijection between sat
   numbers and (height, offset), and the inverse (height of a sat).           *)
EXTENDS Naturals, Sequences, TLC
CONSTANTS H, S0, MaxBlocks
VARIABLES height, next     \* number of blocks mined, first sat of the next block
RECURSIVE Pow2(_)
Pow2(n) == IF n = 0 THEN 1 ELSE 2 * Pow2(n - 1)
Sub(h) == S0 \div Pow2(h \div H)
RECURSIVE EStart(_)
EStart(e) == IF e = 0 THEN 0 ELSE EStart(e - 1) + H * (S0 \div Pow2(e - 1))
Closed(h) == EStart(h \div H) + (h % H) * Sub(h)
\* inverse: the height whose block contains sat s (s below the sats mined so far)
HeightOf(s) == CHOOSE h \in 0..MaxBlocks : Closed(h) <= s /\ s < Closed(h) + Sub(h)
Init == height = 0 /\ next = 0
Mine == height < MaxBlocks /\ height' = height + 1 /\ next' = next + Sub(height)
Spec == Init /\ [][Mine]_<<height, next>>
ClosedFormAgrees == next = Closed(height)
Bijection == \A s \in 0..(next - 1) :
               /\ \E h \in 0..(height - 1) : Closed(h) <= s /\ s < Closed(h) + Sub(h)
               /\ \A h1, h2 \in 0..(height - 1) :
                     (Closed(h1) <= s /\ s < Closed(h1) + Sub(h1) /\ Closed(h2) <= s /\ s < Closed(h2) + Sub(h2)) => h1 = h2
Monotone == \A h \in 0..(height - 1) : Closed(h) + Sub(h) = Closed(h + 1)
=============================================================================
