---------------------------- MODULE EnvelopeTrace ----------------------------
(* C27 conformance.  Lines:
   {f:"tokens", toks, envs}           real RawEnvelope::from_transaction on the script spelt by toks
   {f:"roundtrip", built, parsed}     inscriptions built by ord's own reveal-script builder, parsed back
   {f:"pointer"| "id", ...}           compact byte encodings
   {f:"random", panic}                arbitrary witness bytes                                   *)
EXTENDS Envelope, OrdNumbers, TLC, Json, IOUtils
Rec == ndJsonDeserialize(IOEnv.TRACE)
VARIABLE l
Chk(name, cond, info) == IF cond THEN TRUE ELSE PrintT(<<"FAIL", name, "line", l, info>>) /\ FALSE
FieldKeys == {"ct", "ce", "mp", "dl", "pt", "rn", "pe", "md", "pr", "body"}
SameFields(a, b) == /\ \A k \in FieldKeys : a.len[k] = b.len[k] /\ a.sum[k] = b.sum[k]
                    /\ a.parents = b.parents
LenRec(b) == [ct |-> b.len.ct, ce |-> b.len.ce, mp |-> b.len.mp, dl |-> b.len.dl, pt |-> b.len.pt, rn |-> b.len.rn,
              pe |-> b.len.pe, md |-> b.len.md, pr |-> b.len.pr, body |-> b.len.body, parents |-> Len(b.parents)]
Init == l = 1
Next == /\ l <= Len(Rec)
        /\ LET r == Rec[l] IN
           CASE r.f = "tokens" ->
                  /\ Chk("C27.total", ~r.panic, r.toks)
                  /\ Chk("C27.automaton", r.envs = ParseScript(r.toks), <<"toks", r.toks, "obs", r.envs, "spec", ParseScript(r.toks)>>)
                  /\ Chk("C27.indices", r.offsets = [k \in 1..Len(r.envs) |-> k - 1], r.offsets)
             [] r.f = "roundtrip" ->
                  /\ Chk("C27.count", Len(r.parsed) = Len(r.built), <<Len(r.parsed), Len(r.built)>>)
                  /\ \A k \in 1..Len(r.built) :
                        k <= Len(r.parsed) =>
                          /\ Chk("C27.fields", SameFields(r.built[k], r.parsed[k]), <<k, r.built[k], r.parsed[k]>>)
                          /\ Chk("C27.index", r.parsed[k].offset = k - 1 /\ r.parsed[k].input = r.input, r.parsed[k])
                          /\ Chk("C27.layout", r.parsed[k].pushes = NPushes(LenRec(r.built[k])), <<r.parsed[k].pushes, NPushes(LenRec(r.built[k]))>>)
                          /\ Chk("C27.flags", r.parsed[k].dup = DupExpected(LenRec(r.built[k])) /\ ~r.parsed[k].incomplete
                                              /\ ~r.parsed[k].even /\ ~r.parsed[k].pushnum /\ ~r.parsed[k].stutter, r.parsed[k])
             [] r.f = "pointer" ->
                  Chk("C27.pointer", r.bytes = LeBytes(r.value) /\ r.back.p /\ r.back.v = r.value, r)
             [] r.f = "id" ->
                  Chk("C27.id", r.valueLen = 32 + Len(LeBytes(r.index)) /\ r.backOk /\ r.backIndex = r.index, r)
             [] r.f = "random" -> Chk("C27.randomTotal", ~r.panic, r)
             [] OTHER -> TRUE
        /\ l' = l + 1
Spec == Init /\ [][Next]_l
Accepted ==
  /\ PrintT(<<"MATCHED", TLCGet("stats").diameter - 1, "OF", Len(Rec)>>)
  /\ TLCGet("stats").diameter - 1 = Len(Rec)
=============================================================================
