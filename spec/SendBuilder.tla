---------------------------- MODULE SendBuilder ----------------------------
(* wallet::transaction_builder::TransactionBuilder as the pipeline it is:
   select_outgoing -> align_outgoing -> pad_alignment_output -> add_value ->
   strip_value -> deduct_fee -> build, over an abstract wallet.  All scripts are
   taproot (dust limit 330 sat, 43 vbytes per output, key-path inputs).

   A configuration is
     [utxos: Seq([v: value, ins: Seq(offset), runic: BOOLEAN, locked: BOOLEAN]),
      out: [u: index into utxos, off: offset],  r2: twice the fee rate (sat/vB),
      target: [kind: "postage" | "exact" | "value", v: sats]]
   and a result is [st, ins: Seq(utxo index), outs: Seq([k: "R" | "C", v])], where
   st is "ok", "err:<kind>" or "panic:<assertion>" (the code's internal assert!s
   are modelled as results so that TLC can show them reachable).

   `Clauses(c, r)` is property C20 as a predicate over a configuration and ANY
   result -- it is evaluated both on the model's result (SendModel) and on the
   result observed from the real code (SendTrace).                            *)
EXTENDS Integers, Sequences, FiniteSets

DUST == 330
MAXPOSTAGE == 20000
TARGETPOSTAGE == 10000
INVB == 57      \* TransactionBuilder::ADDITIONAL_INPUT_VBYTES
OUTVB == 43     \* TransactionBuilder::ADDITIONAL_OUTPUT_VBYTES

\* vsize of a transaction with n key-path taproot inputs and m taproot outputs
VSize(n, m) == 10 + 41 * n + 43 * m + ((2 + 66 * n + 3) \div 4)
\* FeeRate::fee: round(rate * vsize) with rate = r2 / 2
Fee(r2, vs) == (r2 * vs + 1) \div 2

Abs(a, b) == IF a >= b THEN a - b ELSE b - a
RECURSIVE SumSeq(_)
SumSeq(s) == IF s = <<>> THEN 0 ELSE Head(s) + SumSeq(Tail(s))

Cardinal(c, u) == ~c.utxos[u].runic /\ ~c.utxos[u].locked /\ c.utxos[u].ins = <<>>

\* select_cardinal_utxo over the remaining utxos in outpoint order
RECURSIVE SelFold(_, _, _, _, _, _)
SelFold(c, k, avail, t, under, best) ==
  IF k > Len(c.utxos) THEN best
  ELSE IF k \notin avail \/ ~Cardinal(c, k) THEN SelFold(c, k + 1, avail, t, under, best)
  ELSE LET cur == c.utxos[k].v
           b0  == IF best = <<>> THEN <<k, cur>> ELSE best
           bv  == b0[2]
           closer == Abs(cur, t) < Abs(bv, t)
           npc == IF under THEN bv > t /\ closer ELSE bv < t /\ closer
           ipc == IF under THEN cur <= t /\ closer ELSE cur >= t /\ closer
           nmp == IF under THEN bv > t /\ cur <= t ELSE bv < t /\ cur >= t
           b1  == IF ipc \/ npc \/ nmp THEN <<k, cur>> ELSE b0
       IN SelFold(c, k + 1, avail, t, under, b1)
Select(c, avail, t, under) == SelFold(c, 1, avail, t, under, <<>>)

InVal(c, u) == c.utxos[u].v
SumIns(c, ins) == SumSeq([i \in 1..Len(ins) |-> InVal(c, ins[i])])
SumOuts(outs) == SumSeq([i \in 1..Len(outs) |-> outs[i].v])
\* position of the outgoing sat in the input sat sequence
RECURSIVE SatOffset(_, _)
SatOffset(c, ins) == IF Head(ins) = c.out.u THEN c.out.off ELSE InVal(c, Head(ins)) + SatOffset(c, Tail(ins))

SetLast(outs, v) == [outs EXCEPT ![Len(outs)].v = v]
Last(outs) == outs[Len(outs)]
Fail(s, why) == [s EXCEPT !.st = why]

SelectOutgoing(c) ==
  LET s0 == [ins |-> <<>>, outs |-> <<>>, avail |-> 1..Len(c.utxos), unused |-> 2, st |-> "run"]
      mine == c.utxos[c.out.u].ins
  IN IF \E i \in 1..Len(mine) : mine[i] # c.out.off /\ c.out.off < mine[i] + DUST THEN Fail(s0, "err:additional")
     ELSE IF c.out.off >= c.utxos[c.out.u].v THEN Fail(s0, "err:range")
     ELSE [s0 EXCEPT !.ins = <<c.out.u>>, !.outs = << [k |-> "R", v |-> c.utxos[c.out.u].v] >>,
                     !.avail = @ \ {c.out.u}]

Align(c, s) ==
  IF s.st # "run" THEN s ELSE
  LET so == SatOffset(c, s.ins) IN
  IF so = 0 THEN s
  ELSE [s EXCEPT !.outs = << [k |-> "C", v |-> so], [k |-> "R", v |-> s.outs[1].v - so] >>,
                 !.unused = s.unused - 1]

RECURSIVE Pad(_, _)
Pad(c, s) ==
  IF s.st # "run" \/ s.outs[1].k = "R" \/ s.outs[1].v >= DUST THEN s
  ELSE LET sel == Select(c, s.avail, DUST - s.outs[1].v, TRUE) IN
       IF sel = <<>> THEN Fail(s, "err:cardinal")
       ELSE Pad(c, [s EXCEPT !.ins = <<sel[1]>> \o s.ins,
                             !.outs[1].v = s.outs[1].v + sel[2],
                             !.avail = s.avail \ {sel[1]}])

MinValue(c) == IF c.target.kind = "postage" THEN DUST ELSE c.target.v

RECURSIVE AddLoop(_, _, _)
AddLoop(c, s, deficit) ==
  IF deficit = 0 \/ s.st # "run" THEN s
  ELSE LET \* the exact fee increase of one more key-path input (57 or 58 vbytes depending on parity)
           addfee == Fee(c.r2, VSize(Len(s.ins) + 1, Len(s.outs))) - Fee(c.r2, VSize(Len(s.ins), Len(s.outs)))
           sel == Select(c, s.avail, deficit + addfee, FALSE) IN
       IF sel = <<>> THEN Fail(s, "err:cardinal")
       ELSE IF sel[2] < addfee THEN Fail(s, "err:cardinal")
       ELSE LET benefit == sel[2] - addfee
                s1 == [s EXCEPT !.ins = s.ins \o <<sel[1]>>,
                                !.outs = SetLast(s.outs, Last(s.outs).v + sel[2]),
                                !.avail = s.avail \ {sel[1]}]
            IN AddLoop(c, s1, IF benefit > deficit THEN 0 ELSE deficit - benefit)

AddValue(c, s) ==
  IF s.st # "run" THEN s ELSE
  LET total == MinValue(c) + Fee(c.r2, VSize(Len(s.ins), Len(s.outs))) IN
  IF total > Last(s.outs).v THEN AddLoop(c, s, total - Last(s.outs).v) ELSE s

Strip(c, s) ==
  IF s.st # "run" THEN s ELSE
  LET so == SatOffset(c, s.ins)
      value == SumOuts(s.outs) - so
      vs == VSize(Len(s.ins), Len(s.outs))
      fee == Fee(c.r2, vs)
      max == IF c.target.kind = "postage" THEN MAXPOSTAGE ELSE c.target.v
      tgt == IF c.target.kind = "postage" THEN TARGETPOSTAGE ELSE c.target.v
  IN IF value >= fee /\ value - fee > max /\ value - tgt > DUST + Fee(c.r2, vs + OUTVB)
     THEN [s EXCEPT !.outs = Append(SetLast(s.outs, tgt), [k |-> "C", v |-> value - tgt]),
                    !.unused = s.unused - 1]
     ELSE s

Deduct(c, s) ==
  IF s.st # "run" THEN s ELSE
  LET so == SatOffset(c, s.ins)
      fee == Fee(c.r2, VSize(Len(s.ins), Len(s.outs)))
      tot == SumOuts(s.outs)
  IN IF tot < fee \/ ~(tot - fee > so) THEN Fail(s, "panic:fee consumes sat")
     ELSE IF Last(s.outs).v < fee THEN Fail(s, "panic:last cannot pay fee")
     ELSE [s EXCEPT !.outs = SetLast(s.outs, Last(s.outs).v - fee)]

RECURSIVE OffsetOfRecipient(_)
OffsetOfRecipient(outs) == IF outs = <<>> THEN 0
                           ELSE IF Head(outs).k = "R" THEN 0 ELSE Head(outs).v + OffsetOfRecipient(Tail(outs))
Recips(outs) == {i \in 1..Len(outs) : outs[i].k = "R"}
Recip(outs) == CHOOSE i \in Recips(outs) : TRUE

\* the assertions of TransactionBuilder::build
BuildAsserts(c, s) ==
  IF s.st # "run" THEN s ELSE
  LET so == SatOffset(c, s.ins)
      r == s.outs[Recip(s.outs)].v
      slop == Fee(c.r2, OUTVB)
      fee == SumIns(c, s.ins) - SumOuts(s.outs)
  IN IF c.target.kind = "postage" /\ r > MAXPOSTAGE + slop THEN Fail(s, "panic:postage not stripped")
     ELSE IF c.target.kind = "exact" /\ r > c.target.v + slop THEN Fail(s, "panic:postage not stripped")
     ELSE IF c.target.kind = "value" /\ r < c.target.v THEN Fail(s, "panic:value underflow")
     ELSE IF c.target.kind = "value" /\ r - c.target.v > DUST + slop THEN Fail(s, "panic:value not equal")
     ELSE IF OffsetOfRecipient(s.outs) # so THEN Fail(s, "panic:sat not first")
     ELSE IF fee # Fee(c.r2, VSize(Len(s.ins), Len(s.outs))) THEN Fail(s, "panic:fee estimation")
     ELSE IF \E i \in 1..Len(s.outs) : s.outs[i].v < DUST THEN Fail(s, "panic:dust")
     ELSE [s EXCEPT !.st = "ok"]

PreCheck(c) == c.target.kind \in {"value", "exact"} /\ c.target.v < DUST
Build(c) == IF PreCheck(c) THEN [ins |-> <<>>, outs |-> <<>>, avail |-> {}, unused |-> 2, st |-> "err:dust"]
            ELSE BuildAsserts(c, Deduct(c, Strip(c, AddValue(c, Pad(c, Align(c, SelectOutgoing(c)))))))

\* ---------------------------------------------------------------- C20
ErrKinds == {"err:additional", "err:range", "err:cardinal", "err:dust", "err:overflow", "err:notinwallet", "err:dup", "err:address"}
IsPanic(r) == r.st \notin ({"ok"} \cup ErrKinds)

\* start of utxo ins[i] in the input sat sequence
InStart(c, ins, i) == SumSeq([j \in 1..(i - 1) |-> InVal(c, ins[j])])
\* index of the output holding absolute position p, 0 if p falls into the fee
RECURSIVE OutAt(_, _, _)
OutAt(outs, p, k) == IF k > Len(outs) THEN 0
                     ELSE IF p < outs[k].v THEN k ELSE OutAt(outs, p - outs[k].v, k + 1)

NoPanic(c, r) == ~IsPanic(r)
Clauses(c, r, fee) ==
  r.st = "ok" =>
    /\ Cardinality(Recips(r.outs)) = 1                                            \* single recipient output
    /\ c.out.u \in {r.ins[i] : i \in 1..Len(r.ins)}
    /\ Cardinality({r.ins[i] : i \in 1..Len(r.ins)}) = Len(r.ins)
    /\ SatOffset(c, r.ins) = OffsetOfRecipient(r.outs)                            \* outgoing sat is its first sat
    /\ \A i \in 1..Len(r.ins) :                                                    \* only cardinal utxos besides the outgoing
          r.ins[i] # c.out.u => Cardinal(c, r.ins[i])
    /\ \A i \in 1..Len(r.ins) : \A j \in 1..Len(c.utxos[r.ins[i]].ins) :          \* other inscriptions stay in change
          LET o == c.utxos[r.ins[i]].ins[j]
              p == InStart(c, r.ins, i) + o
          IN (r.ins[i] = c.out.u /\ o = c.out.off) \/
             (OutAt(r.outs, p, 1) # 0 /\ r.outs[OutAt(r.outs, p, 1)].k = "C")
    /\ \A i \in 1..Len(r.outs) : r.outs[i].k \in {"R", "C"} /\ r.outs[i].v >= DUST  \* change or recipient, no dust
    /\ Cardinality({i \in 1..Len(r.outs) : r.outs[i].k = "C"}) <= 2
    /\ LET rv == r.outs[Recip(r.outs)].v IN
       CASE c.target.kind = "value" -> rv >= c.target.v
         [] c.target.kind = "exact" -> rv >= c.target.v /\ rv <= c.target.v + Fee(c.r2, OUTVB)
         [] c.target.kind = "postage" -> rv <= MAXPOSTAGE + Fee(c.r2, OUTVB)
    /\ SumIns(c, r.ins) - SumOuts(r.outs) = fee                                   \* fee = rate x signed size
=============================================================================
