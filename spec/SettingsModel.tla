--------------------------- MODULE SettingsModel ---------------------------
EXTENDS Settings, TLC
VARIABLES kind, flag, env, file
vars == <<kind, flag, env, file>>
OptVals == {"a", "b", "c"}
Init == /\ kind \in {"option", "switch", "union"}
        /\ IF kind = "option" THEN flag \in OptVals \cup {Absent} /\ env \in OptVals \cup {Absent} /\ file \in OptVals \cup {Absent}
           ELSE IF kind = "switch" THEN flag \in {"on", Absent} /\ env \in {"on", Absent} /\ file \in {"on", "off", Absent}
           ELSE flag = {} /\ env \in SUBSET {"i1", "i2"} /\ file \in SUBSET {"i2", "i3"}
Next == UNCHANGED vars
Spec == Init /\ [][Next]_vars
M == Merge(kind, flag, env, file, "dflt")
\* the law as stated by the property
FlagWins == kind = "option" => (flag # Absent => M = flag)
EnvOverFile == kind = "option" => (flag = Absent /\ env # Absent => M = env)
FileOverDefault == kind = "option" => (flag = Absent /\ env = Absent => M = (IF file # Absent THEN file ELSE "dflt"))
SwitchIsOr == kind = "switch" => (M = "on") = ("on" \in {flag, env, file})
UnionOfAll == kind = "union" => \A x \in {"i1", "i2", "i3"} :
                 (x \in M) = (x \in env \/ x \in file)
=============================================================================
