------------------------------ MODULE BatchModel ------------------------------
(* C21, level A: every small batch (4 modes, 0..MaxParents parents, 1..MaxN
   inscriptions, values from Vals, with and without a premined etching): the
   location the planner reports for every inscription is where the indexer
   places it, and every parent's sat returns to that parent's own output.     *)
EXTENDS BatchPlan, Integers, TLC

CONSTANTS MaxParents, MaxN, Vals, Fee, RunePostage

Modes == {"shared-output", "separate-outputs", "same-sat", "satpoints"}
Batches == UNION {[mode : Modes, pv : [1..np -> Vals], post : [1..n -> Vals], premine : BOOLEAN, hasEtching : BOOLEAN]
                  : np \in 0..MaxParents, n \in 1..MaxN}

VARIABLE b
Init == b \in {x \in Batches : x.premine => x.hasEtching}
Next == UNCHANGED b
Spec == Init /\ [][Next]_b

Ins == RevealIns(b, Fee, RunePostage)
Outs == RevealOuts(b, RunePostage)
ReportedIsPlaced == \A i \in 1..N(b) : Placed(Ins, Outs, CommitInput(b), Pointer(b, i)) = Reported(b, i)
ParentsReturn == \A j \in 1..NP(b) : Landing(Outs, Sum(Prefix(b.pv, j - 1)), 1) = [vout |-> j - 1, off |-> 0]
Funded == Sum(Outs) <= Sum(Ins)
RuneOutputExists == b.premine => Outs[RuneVout(b) + 1] = RunePostage
=============================================================================
