------------------------------- MODULE Ranges -------------------------------
(* Sat ranges as sequences of <<start, end>> pairs (end exclusive), the
   representation used by the index, with the operators the BIP algorithm needs:
   first-in-first-out take/drop, normalisation (adjacent contiguous ranges merged,
   empty ranges dropped) and sat lookup.  Checked against the literal per-sat BIP
   transcription in SatLedger.tla.                                             *)
EXTENDS Naturals, Sequences

RLen(r) == r[2] - r[1]

RECURSIVE Total(_)
Total(rs) == IF rs = <<>> THEN 0 ELSE RLen(Head(rs)) + Total(Tail(rs))

RECURSIVE TakeR(_, _)
TakeR(rs, n) == IF n = 0 \/ rs = <<>> THEN <<>>
                ELSE LET h == Head(rs) IN
                     IF RLen(h) <= n THEN <<h>> \o TakeR(Tail(rs), n - RLen(h))
                     ELSE << <<h[1], h[1] + n>> >>

RECURSIVE DropR(_, _)
DropR(rs, n) == IF n = 0 \/ rs = <<>> THEN rs
                ELSE LET h == Head(rs) IN
                     IF RLen(h) <= n THEN DropR(Tail(rs), n - RLen(h))
                     ELSE << <<h[1] + n, h[2]>> >> \o Tail(rs)

RECURSIVE Norm(_)
Norm(rs) == IF rs = <<>> THEN <<>>
            ELSE IF RLen(rs[1]) = 0 THEN Norm(Tail(rs))
            ELSE IF Len(rs) = 1 THEN rs
            ELSE IF RLen(rs[2]) = 0 THEN Norm(<<rs[1]>> \o Tail(Tail(rs)))
            ELSE IF rs[1][2] = rs[2][1] THEN Norm(<< <<rs[1][1], rs[2][2]>> >> \o Tail(Tail(rs)))
            ELSE <<rs[1]>> \o Norm(Tail(rs))

RECURSIVE ConcatAll(_)
ConcatAll(ss) == IF ss = <<>> THEN <<>> ELSE Head(ss) \o ConcatAll(Tail(ss))

\* offset of sat s within rs, or -1 (as 0-1) if absent; NotFound is a value outside Nat
NotFound == 0 - 1
RECURSIVE OffsetOf(_, _, _)
OffsetOf(rs, s, acc) == IF rs = <<>> THEN NotFound
                        ELSE LET h == Head(rs) IN
                             IF h[1] <= s /\ s < h[2] THEN acc + (s - h[1])
                             ELSE OffsetOf(Tail(rs), s, acc + RLen(h))

\* the sat at offset k (0-based) of rs; rs must hold more than k sats
RECURSIVE SatAt(_, _)
SatAt(rs, k) == LET h == Head(rs) IN
                IF k < RLen(h) THEN h[1] + k ELSE SatAt(Tail(rs), k - RLen(h))

\* split rs over a sequence of output values; [outs |-> Seq(ranges), rest |-> ranges]
RECURSIVE SplitR(_, _)
SplitR(rs, vals) == IF vals = <<>> THEN [outs |-> <<>>, rest |-> rs]
                    ELSE LET r == SplitR(DropR(rs, Head(vals)), Tail(vals))
                         IN [outs |-> <<TakeR(rs, Head(vals))>> \o r.outs, rest |-> r.rest]
=============================================================================
