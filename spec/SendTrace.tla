----------------------------- MODULE SendTrace -----------------------------
(* C20 conformance: each trace line is {cfg, obs[, model]} where obs is what the
   real TransactionBuilder::build_transaction returned for the abstract wallet
   cfg (transaction, error kind, or panic class), recorded by `ordv send`.
   Verdict (PROP = "C20"): the clauses of the property evaluated on the observed
   result, and no panic -- except the recorded assertion classes, tolerated only
   when the pipeline model reproduces exactly that assertion for that wallet.
   Drift (PROP = "DRIFT"): the observed result must equal the model's.        *)
EXTENDS SendBuilder, TLC, Json, IOUtils

Rec == ndJsonDeserialize(IOEnv.TRACE)
PROP == IOEnv.PROP
VARIABLE l

Chk(name, cond, info) == IF cond THEN TRUE ELSE PrintT(<<"FAIL", name, "line", l, info>>) /\ FALSE
ChkKF(name, cond, kf, kfname, info) ==
  IF cond THEN TRUE
  ELSE IF kf THEN PrintT(<<"KNOWN", kfname, "line", l, info>>)
  ELSE PrintT(<<"FAIL", name, "line", l, info>>) /\ FALSE

KnownClass(st) == CASE st = "panic:postage not stripped" -> "C20-exact-postage-excess"
                    [] st = "panic:dust" -> "C20-added-input-half-vbyte"
                    [] st = "panic:value underflow" -> "C20-added-input-half-vbyte"
                    [] st = "panic:fee consumes sat" -> "C20-added-input-half-vbyte"
                    [] OTHER -> "none"
Obs(o) == [st |-> o.st, ins |-> o.ins, outs |-> [i \in 1..Len(o.outs) |-> [k |-> o.outs[i].k, v |-> o.outs[i].v]]]

Init == l = 1
Next ==
  /\ l <= Len(Rec)
  /\ LET c == Rec[l].cfg
         o == Rec[l].obs
         m == Build(c)
         r == Obs(o)
     IN IF PROP = "DRIFT"
        THEN Chk("drift", m.st = r.st
                          /\ (r.st = "ok" => m.ins = r.ins /\ m.outs = r.outs /\ o.vsize = VSize(Len(r.ins), Len(r.outs))),
                 <<"cfg", c, "model", [st |-> m.st, ins |-> m.ins, outs |-> m.outs], "obs", r>>)
        ELSE /\ ChkKF("C20.panic", ~IsPanic(r),
                      KnownClass(r.st) # "none" /\ m.st = r.st /\ (r.st = "panic:postage not stripped" => c.target.kind = "exact"),
                      KnownClass(r.st), <<c, o.st, o.text>>)
             /\ Chk("C20.clauses", Clauses(c, r, Fee(c.r2, o.vsize)), <<"cfg", c, "obs", r, "vsize", o.vsize>>)
             /\ (r.st = "ok" => Chk("C20.changeOnce",
                     \A i, j \in 1..Len(o.outs) : (i # j /\ o.outs[i].k = "C" /\ o.outs[j].k = "C") => o.outs[i].c # o.outs[j].c, o.outs))
  /\ l' = l + 1
Spec == Init /\ [][Next]_l

Accepted ==
  /\ PrintT(<<"MATCHED", TLCGet("stats").diameter - 1, "OF", Len(Rec)>>)
  /\ TLCGet("stats").diameter - 1 = Len(Rec)
=============================================================================
