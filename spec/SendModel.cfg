SPECIFICATION Spec
CONSTANTS
  OutVals = {330, 546, 9000, 20001}
  OutOffs = {0, 330}
  CardVals = {168, 1500, 20000}
  MaxCards = 2
  Rates2 = {2, 3, 20}
  TargetSet = "full"
  InsSet = "full"
  MarkSet = "plain"
INVARIANTS ClausesHold NoUnknownPanic
CHECK_DEADLOCK FALSE
