------------------------------ MODULE Settings ------------------------------
(* C36: precedence of the four settings sources.  A key has a kind:
     "option"  flag > environment > config file > default (first present wins)
     "switch"  boolean, on iff any source sets it
     "union"   hidden-inscription list: union of all sources
   A source either does not mention the key (absent) or carries a value.
   SettingsModel enumerates every presence subset with pairwise distinct values
   and checks the law; SettingsTrace validates recorded Settings::merge results. *)
EXTENDS Naturals, Sequences, FiniteSets

Absent == "absent"
Merge(kind, flag, env, file, default) ==
  CASE kind = "option" -> (IF flag # Absent THEN flag ELSE IF env # Absent THEN env ELSE IF file # Absent THEN file ELSE default)
    [] kind = "switch" -> (IF flag = "on" \/ env = "on" \/ file = "on" THEN "on" ELSE "off")
    [] kind = "union" -> flag \cup env \cup file      \* a source that does not mention the key contributes {}
=============================================================================
